/*
 * cbmc_shims.c -- the harness-library replacements that every CBMC group links.
 *
 * 1. utilAssert: the sink of the library's ASSERT becomes a proof obligation.
 * 2. memIsDisjoint, memIsSameOrDisjoint, memIsDisjoint2/3/4: CBMC compares pointers
 *    into different objects by offset only, so the repository's bodies (relational
 *    comparison of addresses) are not faithful for two distinct objects.  mem.c is
 *    compiled with these five names renamed to <name>_real, and the versions below
 *    decide overlap through __CPROVER_same_object / __CPROVER_POINTER_OFFSET.
 *    Group C05/mem_pred checks the real bodies against these on pointers into one
 *    common object, where CBMC's comparison is faithful.
 * This is trusted text (listed in every evidence file).
 */
#include <stddef.h>

typedef int bool_t;

void utilAssert(int e, const char* file, int line)
{
	(void)file; (void)line;
	__CPROVER_assert(e, "bee2 ASSERT");
}

static bool_t v_disj(const void* p1, size_t n1, const void* p2, size_t n2)
{
	if (n1 == 0 || n2 == 0)
		return 1;
	if (!__CPROVER_same_object(p1, p2))
		return 1;
	{
		size_t o1 = __CPROVER_POINTER_OFFSET(p1);
		size_t o2 = __CPROVER_POINTER_OFFSET(p2);
		return o1 + n1 <= o2 || o2 + n2 <= o1;
	}
}

bool_t memIsDisjoint(const void* buf1, const void* buf2, size_t count)
{
	return v_disj(buf1, count, buf2, count);
}

bool_t memIsSameOrDisjoint(const void* buf1, const void* buf2, size_t count)
{
	return buf1 == buf2 || v_disj(buf1, count, buf2, count);
}

bool_t memIsDisjoint2(const void* buf1, size_t count1,
	const void* buf2, size_t count2)
{
	return v_disj(buf1, count1, buf2, count2);
}

bool_t memIsDisjoint3(const void* buf1, size_t count1,
	const void* buf2, size_t count2, const void* buf3, size_t count3)
{
	return v_disj(buf1, count1, buf2, count2) &&
		v_disj(buf1, count1, buf3, count3) &&
		v_disj(buf2, count2, buf3, count3);
}

bool_t memIsDisjoint4(const void* buf1, size_t count1,
	const void* buf2, size_t count2, const void* buf3, size_t count3,
	const void* buf4, size_t count4)
{
	return v_disj(buf1, count1, buf2, count2) &&
		v_disj(buf1, count1, buf3, count3) &&
		v_disj(buf1, count1, buf4, count4) &&
		v_disj(buf2, count2, buf3, count3) &&
		v_disj(buf2, count2, buf4, count4) &&
		v_disj(buf3, count3, buf4, count4);
}
