#!/usr/bin/env python3
"""
engine.py -- build / instrument / run / classify / replay / evidence for the contract
checks of /verif (see DESIGN.md section 2).

A property plan (plan/<ID>.py) defines
    LEVEL, LEVEL_TEXT  - evidence level ("proof" / "other")
    GROUPS             - list of dicts, one per obligation group (see G() below)
    TRUSTED, ASSUMPTIONS, NOT_COVERED - lists of strings
Every group is compiled from /repo's working tree on every run.
"""
import concurrent.futures as cf
import hashlib
import json
import os
import re
import resource
import shutil
import signal
import subprocess
import sys
import time

VERIF = os.path.dirname(os.path.dirname(os.path.abspath(__file__)))
REPO = os.environ.get("VERIF_REPO", "/repo")
WORK = os.path.join(VERIF, ".work")
REPLAY_OUT = os.path.join(VERIF, "replay-out")

MEM_PREDS = ["memIsDisjoint", "memIsSameOrDisjoint", "memIsDisjoint2",
             "memIsDisjoint3", "memIsDisjoint4"]

DEFAULT_CHECKS = ["--bounds-check", "--pointer-check", "--pointer-overflow-check",
                  "--div-by-zero-check", "--pointer-primitive-check"]


def G(name, harness, entry=None, srcs=(), defs=(), arch=64, enforce=(), replace=(),
      loops=None, unwind=None, unwindset=(), backend="sat", checks=None, extra=(),
      timeout=300, mem_gb=8, tier="quick", level="P", bound=None, required=True,
      rewrite=(), native=True, native_srcs=None, search=0, fn=(), note="",
      obj_bits=None, ndebug=False, fast=False, neg_control=False, cfg_indep=False,
      no_shims=False, native_defs=(), stubs=(), expect_fail=(), dfcc=False,
      inline_loops=False, split=False, src_defs=(), spec_unwind=None, branch_hook=None,
      native_cflags=(), strip=None, extra_units=(), native_rewrite=False):
    """One obligation group.
    spec_unwind: unwinding bound for the loops of harness/spec functions (h_*, r_*, mon_*),
                so that `unwind` can stay tight for the loops of the repository code
    harness   : path under /verif (C file holding the harness function `entry`)
    srcs      : repo-relative sources compiled with the harness (real code)
    stubs     : /verif-relative C files linked only in the CBMC build (assumed contracts)
    enforce   : [(function, contract_carrier)] -> --enforce-contract f/c_f   (dfcc)
    replace   : [(function, contract_carrier)] -> --replace-call-with-contract
    loops     : /verif-relative loop-contract JSON (--loop-contracts-file)
    unwind    : None = loops must be closed by contracts or be absent; N = bounded
    backend   : sat | cvc5 | z3 | portfolio
    level     : P | Pc | B | S          bound: text for B
    required  : a timeout/unknown in a required group makes the run undecided (exit 2)
    native    : harness is dual-mode (replay + search natively)
    search    : number of native search samples when the solver answer is unknown
    fn        : functions of /repo under contract in this group (for evidence)
    neg_control: the group as a whole must FAIL at least one non-canary obligation
    expect_fail: regexes of obligation descriptions that MUST fail (besides canaries)
    """
    d = dict(locals())
    d["entry"] = entry or "harness"
    return d


# ---------------------------------------------------------------------------------------

def sh(cmd, timeout=None, mem_gb=None, env=None, cwd=None):
    """run, return (rc, out, err, wall, timed_out)"""
    def pre():
        os.setsid()
        if mem_gb:
            lim = int(mem_gb * (1 << 30))
            resource.setrlimit(resource.RLIMIT_AS, (lim, lim))
    t0 = time.time()
    p = subprocess.Popen(cmd, stdout=subprocess.PIPE, stderr=subprocess.PIPE, env=env,
                         cwd=cwd, preexec_fn=pre)
    _children.add(p.pid)
    try:
        out, err = p.communicate(timeout=timeout)
        to = False
    except subprocess.TimeoutExpired:
        try:
            os.killpg(p.pid, signal.SIGKILL)
        except ProcessLookupError:
            pass
        out, err = p.communicate()
        to = True
    _children.discard(p.pid)
    return p.returncode, out.decode("utf-8", "replace"), err.decode("utf-8", "replace"), \
        time.time() - t0, to


# every child runs in its own session (so that a timeout can kill the solver processes it spawned); when the check itself
# is terminated, the sessions still alive are killed as well, otherwise SMT solvers keep running as orphans
_children = set()


def _kill_children(*_a):
    for pid in list(_children):
        try:
            os.killpg(pid, signal.SIGKILL)
        except Exception:
            pass
    if _a:
        os._exit(143)


import atexit
atexit.register(_kill_children)
for _sig in (signal.SIGTERM, signal.SIGINT, signal.SIGHUP):
    try:
        signal.signal(_sig, _kill_children)
    except Exception:
        pass


class Infra(Exception):
    pass


import threading
SLOTS = threading.BoundedSemaphore(int(os.environ.get("VERIF_JOBS", "14")))
_cache_locks = {}
_cache_guard = threading.Lock()


def set_jobs(n):
    global SLOTS
    SLOTS = threading.BoundedSemaphore(n)


def slot_sh(cmd, **kw):
    with SLOTS:
        return sh(cmd, **kw)


def cached_compile(pid, path, flags, env):
    """goto-cc -c of one translation unit, once per run and flag set"""
    key = hashlib.sha1(("\0".join([path] + flags)).encode()).hexdigest()[:16]
    cdir = os.path.join(WORK, pid, "_cache")
    os.makedirs(cdir, exist_ok=True)
    o = os.path.join(cdir, key + ".gb")
    with _cache_guard:
        lk = _cache_locks.setdefault(key, threading.Lock())
    with lk:
        if os.path.exists(o):
            return o
        e2 = dict(env)
        e2["TMPDIR"] = os.path.join(cdir, "tmp")
        os.makedirs(e2["TMPDIR"], exist_ok=True)
        tmp = o + ".part"
        rc, out, err, _, to = slot_sh(["goto-cc", "-c"] + flags + [path, "-o", tmp], timeout=900, env=e2)
        if rc != 0:
            raise Infra("goto-cc failed on %s: %s" % (path, (err or out)[-1500:]))
        os.rename(tmp, o)
        return o


def _match_paren(text, i):
    """index just after the parenthesis that closes the one at text[i]"""
    depth = 0
    while i < len(text):
        c = text[i]
        if c == "(":
            depth += 1
        elif c == ")":
            depth -= 1
            if depth == 0:
                return i + 1
        i += 1
    raise Infra("unbalanced parenthesis")


def annotate_loops(text, sig, annots, path):
    """insert in-source loop contracts after the headers of the for/while loops of one
    function (textual order).  Nothing else of the file changes; aborts unless the function
    is found exactly once and has exactly len(annots) for/while loops."""
    ms = list(re.finditer(sig, text))
    if len(ms) != 1:
        raise Infra("annotate: signature %r found %d times in %s" % (sig, len(ms), path))
    start = text.index("{", _match_paren(text, text.index("(", ms[0].end() - 1)))
    depth, i = 0, start
    while True:
        if text[i] == "{":
            depth += 1
        elif text[i] == "}":
            depth -= 1
            if depth == 0:
                break
        i += 1
    body = text[start:i]
    clean = re.sub(r"//[^\n]*|/\*.*?\*/", lambda m: " " * len(m.group(0)), body, flags=re.S)
    heads = [m for m in re.finditer(r"\b(for|while)\s*\(", clean)]
    if len(heads) != len(annots):
        raise Infra("annotate: %s has %d for/while loops in %s, the plan annotates %d" % (sig, len(heads), path, len(annots)))
    out, last = [], 0
    for m, a in zip(heads, annots):
        end = _match_paren(clean, m.end() - 1)
        out.append(body[last:end])
        out.append("\n" + a + "\n")
        last = end
    out.append(body[last:])
    return text[:start] + "".join(out) + text[i:]


def apply_rewrites(g, wd):
    """mechanical, must-fire rewrite rules on a scratch copy: front-end limits, and in-place
    loop-contract annotation (the function text itself is unchanged)"""
    mapping = {}
    for rule in g["rewrite"]:
        if isinstance(rule, dict):
            path = rule["file"]
            src = mapping.get(path, os.path.join(REPO, path))
            text = open(src, encoding="utf-8", errors="surrogateescape").read()
            new = annotate_loops(text, rule["sig"], rule["loops"], path)
            dst = os.path.join(wd, "rw_" + path.replace("/", "_"))
            open(dst, "w", encoding="utf-8", errors="surrogateescape").write(new)
            mapping[path] = dst
            continue
        (path, pat, repl, how) = rule
        src = mapping.get(path, os.path.join(REPO, path))
        text = open(src, encoding="utf-8", errors="surrogateescape").read()
        new, n = re.subn(pat, repl, text)
        if n == 0 or (isinstance(how, int) and how > 0 and n != how):
            raise Infra("rewrite rule %r fired %d times in %s (expected %s)" % (pat, n, path, how))
        dst = os.path.join(wd, "rw_" + path.replace("/", "_"))
        open(dst, "w", encoding="utf-8", errors="surrogateescape").write(new)
        mapping[path] = dst
    return mapping


def common_includes(arch):
    inc = ["-I", os.path.join(REPO, "include"), "-I", os.path.join(REPO, "src"), "-I", REPO,
           "-I", os.path.join(VERIF, "include"), "-I", VERIF]
    if arch == 32:
        inc = ["-m32", "-I", os.path.join(VERIF, "shim32"),
               "-idirafter", "/usr/include/x86_64-linux-gnu"] + inc
    return inc


def strip_mem_preds(o, env):
    """remove the bodies of the five pointer-disjointness predicates (replaced by shims)"""
    o2 = o[:-3] + ".nopred.gb"
    with _cache_guard:
        lk = _cache_locks.setdefault(o2, threading.Lock())
    with lk:
        if os.path.exists(o2):
            return o2
        cmd = ["goto-instrument"]
        for p in MEM_PREDS:
            cmd += ["--remove-function-body", p]
        rc, out, err, _, _ = slot_sh(cmd + [o, o2 + ".part"], timeout=900, env=env)
        if rc != 0:
            raise Infra("remove-function-body failed: %s" % (err or out)[-800:])
        os.rename(o2 + ".part", o2)
    return o2


def strip_bodies(o, names, env):
    """remove function bodies that an assumed-contract stub replaces (listed in the evidence)"""
    o2 = o[:-3] + "." + hashlib.sha1(",".join(names).encode()).hexdigest()[:8] + ".gb"
    with _cache_guard:
        lk = _cache_locks.setdefault(o2, threading.Lock())
    with lk:
        if os.path.exists(o2):
            return o2
        if len(names) == 1 and names[0].startswith("!"):
            # keep only the functions matching the regex, strip every other body of this unit
            rc, out, err, _, _ = slot_sh(["goto-instrument", "--list-goto-functions", o], timeout=900, env=env)
            allf = [m.group(1) for m in re.finditer(r"^(\S+) /\* \S+ \*/$", out, re.M)]
            keep = re.compile(names[0][1:])
            names = [f for f in allf if not keep.search(f) and not f.startswith("__CPROVER")]
            if not allf or len(names) == len(allf):
                raise Infra("strip: keep-regex %s matched nothing in %s" % (keep.pattern, o))
        cmd = ["goto-instrument"]
        for p in names:
            cmd += ["--remove-function-body", p]
        rc, out, err, _, _ = slot_sh(cmd + [o, o2 + ".part"], timeout=900, env=env)
        if rc != 0:
            raise Infra("remove-function-body failed: %s" % (err or out)[-800:])
        os.rename(o2 + ".part", o2)
    return o2


def build_goto(g, wd, env, pid="X"):
    rw = apply_rewrites(g, wd)
    cfg = (["-DNDEBUG"] if g["ndebug"] else []) + (["-DSAFE_FAST"] if g["fast"] else [])
    hdefs = ["-DVERIF_CBMC"] + ["-D" + d for d in g["defs"]] + cfg
    sdefs = ["-D" + d for d in g["src_defs"]] + cfg
    inc = common_includes(g["arch"])
    objs = []
    units = [(os.path.join(VERIF, g["harness"]), hdefs)]
    if not g["no_shims"]:
        units.append((os.path.join(VERIF, "lib/cbmc_shims.c"), []))
    for s in g["stubs"]:
        units.append((os.path.join(VERIF, s), hdefs))
    if g["arch"] == 32:
        units.append((os.path.join(VERIF, "stubs/libc32.c"), []))
    for s in g["srcs"]:
        extra = list(sdefs)
        if s.endswith("core/util.c") and not g["no_shims"]:
            extra += ["-DutilAssert=utilAssert_real"]
        units.append((rw.get(s, os.path.join(REPO, s)), extra))
    for (s, d) in g["extra_units"]:
        # a second copy of a repository source compiled with renaming -D flags (e.g. two instances of a
        # function with static state); duplicate definitions of the file's other functions are dropped by the linker
        units.append((os.path.join(REPO, s), list(sdefs) + ["-D" + x for x in d]))
    for i, (path, extra) in enumerate(units):
        flags = inc + extra
        if path.startswith(wd):
            # rewritten copy: relative #include "…" must still find the repo's dir; not cached
            orig = [k for k, v in rw.items() if v == path][0]
            o = os.path.join(wd, "u%d.gb" % i)
            cmd = ["goto-cc", "-c", "-I", os.path.dirname(os.path.join(REPO, orig))] + flags + [path, "-o", o]
            rc, out, err, _, to = slot_sh(cmd, timeout=900, env=env)
            if rc != 0:
                raise Infra("goto-cc failed on %s: %s" % (path, (err or out)[-1500:]))
        else:
            o = cached_compile(pid, path, flags, env)
            if path.endswith("core/mem.c") and not g["no_shims"]:
                o = strip_mem_preds(o, env)
            for sp, names in (g["strip"] or {}).items():
                if path.endswith(sp):
                    o = strip_bodies(o, names, env)
        objs.append(o)
    a = os.path.join(wd, "a.gb")
    cmd = ["goto-cc"] + (["-m32"] if g["arch"] == 32 else []) + ["--function", g["entry"]] + objs + ["-o", a]
    rc, out, err, _, to = sh(cmd, timeout=900, env=env)
    if rc != 0:
        raise Infra("goto-cc link failed: %s" % (err or out)[-1500:])
    cur = a
    if g["branch_hook"]:
        a2 = os.path.join(wd, "a_br.gb")
        rc, out, err, _, to = slot_sh(["goto-instrument", "--branch", g["branch_hook"], a, a2], timeout=300, env=env)
        if rc != 0:
            raise Infra("goto-instrument --branch failed: %s" % (err or out)[-800:])
        cur = a2
    need_dfcc = g["enforce"] or g["replace"] or g["loops"] or g["dfcc"] or g["inline_loops"]
    if need_dfcc:
        b = os.path.join(wd, "b.gb")
        cmd = ["goto-instrument", "--dfcc", g["entry"]]
        for f, c in g["enforce"]:
            cmd += ["--enforce-contract", "%s/%s" % (f, c) if c else f]
        for f, c in g["replace"]:
            cmd += ["--replace-call-with-contract", "%s/%s" % (f, c) if c else f]
        if g["loops"]:
            lf = g["loops"]
            if isinstance(lf, dict):
                lf = make_loops_json(lf, cur, wd, env)
            elif not os.path.isabs(lf):
                lf = os.path.join(VERIF, lf)
            cmd += ["--loop-contracts-file", lf]
        if g["loops"] or g["inline_loops"]:
            cmd += ["--apply-loop-contracts"]
        cmd += [cur, b]
        rc, out, err, _, to = sh(cmd, timeout=300, mem_gb=g["mem_gb"], env=env)
        if rc != 0:
            raise Infra("goto-instrument --dfcc failed: %s" % (err or out)[-2500:])
        cur = b
    return cur


_C_KEYWORDS = set("""sizeof unsigned signed long int char short void const struct union enum
    __CPROVER_object_whole __CPROVER_object_from __CPROVER_object_upto __CPROVER_loop_entry
    __CPROVER_same_object __CPROVER_POINTER_OFFSET __CPROVER_POINTER_OBJECT __CPROVER_OBJECT_SIZE
    __CPROVER_forall __CPROVER_exists __CPROVER_size_t __CPROVER_is_fresh""".split())


def make_loops_json(spec, binary, wd, env):
    """spec: {function: [ {assigns, inv, dec}, ... ]} (loop ordinals in program order).
    Base names used in the clauses are resolved to CBMC symbol ids (f::x, f::1::x, ...)
    from the binary's symbol table, so the contract text mentions only parameters and
    loop counters by their source names."""
    rc, out, err, _, _ = slot_sh(["goto-instrument", "--show-symbol-table", binary], timeout=900, env=env)
    syms = re.findall(r"^Symbol\.+: (\S+)$", out, re.M)
    rc, lout, err, _, _ = slot_sh(["goto-instrument", "--show-loops", binary], timeout=900, env=env)
    nloops = {}
    for m in re.finditer(r"^Loop (\S+)\.(\d+):", lout, re.M):
        nloops[m.group(1)] = max(nloops.get(m.group(1), 0), int(m.group(2)) + 1)
    fns = []
    for fn, loops in spec.items():
        if nloops.get(fn, 0) != len(loops):
            raise Infra("loop contracts: %s has %d loops in the current source, the plan annotates %d"
                        % (fn, nloops.get(fn, 0), len(loops)))
        local = {}
        for sid in syms:
            if sid.startswith(fn + "::") and "$" not in sid:
                base = sid.split("::")[-1]
                local.setdefault(base, sid)
        entries = []
        for k, lp in enumerate(loops):
            text = " ".join([lp.get("assigns", ""), lp["inv"], lp.get("dec", "")])
            ids = set(re.findall(r"(?<![0-9A-Za-z_])[A-Za-z_][A-Za-z_0-9]*", text)) - _C_KEYWORDS
            smap = []
            for ident in sorted(ids):
                if ident in local:
                    smap.append("%s,%s" % (ident, local[ident]))
                elif ident in syms:
                    pass
                elif not re.match(r"^[A-Z_0-9]+$|^[0-9]", ident):
                    raise Infra("loop contract of %s loop %d names %r which is not a symbol of the function"
                                % (fn, k, ident))
            e = {"loop_id": str(k), "invariants": lp["inv"], "symbol_map": ";".join(smap)}
            if lp.get("assigns"):
                e["assigns"] = lp["assigns"]
            if lp.get("dec"):
                e["decreases"] = lp["dec"]
            entries.append(e)
        fns.append({fn: entries})
    path = os.path.join(wd, "loops.json")
    json.dump({"sources": [], "functions": fns}, open(path, "w"), indent=1)
    return path


def cbmc_cmd(g, binary, backend):
    cmd = ["cbmc", binary, "--json-ui", "--trace", "--drop-unused-functions"]
    cmd += (g["checks"] if g["checks"] is not None else DEFAULT_CHECKS)
    if g["unwind"] is not None:
        cmd += ["--unwind", str(g["unwind"])]
        cmd += ["--no-unwinding-assertions"] if "--no-unwinding-assertions" in g["extra"] else ["--unwinding-assertions"]
    for u in g["unwindset"]:
        cmd += ["--unwindset", u]
    if g["obj_bits"]:
        cmd += ["--object-bits", str(g["obj_bits"])]
    if backend == "cvc5":
        cmd += ["--cvc5"]
    elif backend == "z3":
        cmd += ["--z3"]
    elif backend == "kissat":
        cmd += ["--external-sat-solver", "kissat"]
    cmd += list(g["extra"])
    return cmd


def parse_cbmc(out):
    """-> (results list, status, messages)"""
    try:
        doc = json.loads(out)
    except Exception:
        # truncated output (killed): try to salvage nothing
        return None, None, out[-2000:]
    results, status, msgs = None, None, []
    for item in doc:
        if not isinstance(item, dict):
            continue
        if "result" in item:
            results = item["result"]
        if "cProverStatus" in item:
            status = item["cProverStatus"]
        if item.get("messageType") in ("ERROR", "WARNING"):
            msgs.append(item.get("messageText", ""))
    return results, status, "\n".join(msgs)


def list_properties(g, binary, env):
    cmd = cbmc_cmd(g, binary, "sat")
    cmd = [c for c in cmd if c != "--trace"] + ["--show-properties"]
    rc, out, err, wall, to = slot_sh(cmd, timeout=300, mem_gb=g["mem_gb"], env=env)
    try:
        doc = json.loads(out)
    except Exception:
        raise Infra("--show-properties failed: %s" % (out + err)[-1000:])
    for item in doc:
        if isinstance(item, dict) and "properties" in item:
            return item["properties"]
    raise Infra("--show-properties: no property list")


def run_cbmc_split(g, binary, env):
    """one solver run per harness assertion (+ one for all generated safety checks):
    the conjunction of many value obligations in a single SAT query was measured to be
    ~40x slower than the obligations decided one by one"""
    props = list_properties(g, binary, env)
    own, rest = [], []
    for p in props:
        (own if p.get("class") == "assertion" and p["name"].startswith(g["entry"] + ".")
         else rest).append(p["name"])
    UNW = ["<unwinding assertions>"]
    jobs = [[n] for n in own] + ([rest] if rest else []) + ([UNW] if g["unwind"] is not None else [])
    agg = dict(backend=g["backend"], cmd=None, rc=0, results=[], status="success", msgs="",
               wall=0.0, timed_out=False)
    def one(names):
        g2 = dict(g)
        if names is UNW:
            # --property filters out the unwinding assertions (they are generated during
            # symbolic execution), so they get a run of their own: without it an
            # insufficient bound would silently cut paths
            g2["checks"] = []
            g2["backend"] = "sat"
            g2["extra"] = [x for x in g["extra"] if x != "--no-standard-checks"] + \
                ["--no-standard-checks", "--no-assertions", "--slice-formula"]
            return run_cbmc(g2, binary, env, _split=True)
        g2["extra"] = list(g["extra"]) + [x for n in names for x in ("--property", n)]
        if names is rest and g["backend"] != "sat":
            g2["backend"] = "sat"      # generated safety checks are linear: SAT decides them
            g2["extra"] = g2["extra"] + ["--slice-formula"]
        return run_cbmc(g2, binary, env, _split=True)
    with cf.ThreadPoolExecutor(8) as ex:
        for names, r in zip(jobs, ex.map(one, jobs)):
            agg["cmd"] = agg["cmd"] or [c for c in r["cmd"] if not c.startswith(g["entry"] + ".")]
            agg["wall"] += r["wall"]
            agg["msgs"] += r["msgs"] or ""
            if r["results"] is None or r["timed_out"]:
                agg["timed_out"] = agg["timed_out"] or r["timed_out"]
                agg["results"] += [dict(property=n, description="(no answer) " + n, status="UNKNOWN")
                                   for n in names]
                continue
            agg["results"] += [x for x in r["results"] if names is UNW or x.get("property") in names]
    agg["timed_out"] = False  # per-property unknowns are already recorded
    return agg


def run_cbmc(g, binary, env, _split=False):
    if g["split"] and not _split:
        return run_cbmc_split(g, binary, env)
    backends = {"sat": ["sat"], "cvc5": ["cvc5"], "z3": ["z3"], "kissat": ["kissat"],
                "portfolio": ["cvc5", "z3"]}[g["backend"]]
    if len(backends) == 1:
        cmd = cbmc_cmd(g, binary, backends[0])
        rc, out, err, wall, to = slot_sh(cmd, timeout=g["timeout"], mem_gb=g["mem_gb"], env=env)
        res, status, msgs = parse_cbmc(out)
        return dict(backend=backends[0], cmd=cmd, rc=rc, results=res, status=status,
                    msgs=msgs + err[-1000:], wall=wall, timed_out=to)
    # portfolio: first definite answer wins
    with cf.ThreadPoolExecutor(len(backends)) as ex:
        futs = {}
        procs = {}
        def one(b):
            cmd = cbmc_cmd(g, binary, b)
            e2 = dict(env)
            td = os.path.join(env["TMPDIR"], b)
            os.makedirs(td, exist_ok=True)
            e2["TMPDIR"] = td
            t0 = time.time()
            p = subprocess.Popen(cmd, stdout=subprocess.PIPE, stderr=subprocess.PIPE, env=e2,
                                 preexec_fn=lambda: (os.setsid(), resource.setrlimit(
                                     resource.RLIMIT_AS, (int(g["mem_gb"] * (1 << 30)),) * 2)))
            procs[b] = p
            _children.add(p.pid)
            try:
                out, err = p.communicate(timeout=g["timeout"])
                to = False
            except subprocess.TimeoutExpired:
                try:
                    os.killpg(p.pid, signal.SIGKILL)
                except ProcessLookupError:
                    pass
                out, err = p.communicate()
                to = True
            out = out.decode("utf-8", "replace")
            res, status, msgs = parse_cbmc(out)
            return dict(backend=b, cmd=cmd, rc=p.returncode, results=res, status=status,
                        msgs=msgs + err.decode("utf-8", "replace")[-1000:],
                        wall=time.time() - t0, timed_out=to)
        for b in backends:
            futs[ex.submit(one, b)] = b
        best = None
        for f in cf.as_completed(futs):
            r = f.result()
            definite = r["results"] is not None and r["status"] in ("success", "failure") \
                and not r["timed_out"] and all(x.get("status") in ("SUCCESS", "FAILURE")
                                               for x in r["results"])
            if definite:
                best = r
                for b, p in procs.items():
                    if p.poll() is None:
                        try:
                            os.killpg(p.pid, signal.SIGKILL)
                        except ProcessLookupError:
                            pass
                break
            if best is None:
                best = r
        return best


# ---------------------------------------------------------------------------------------
# trace -> inputs

def val_bytes(v):
    """little-endian octets of a CBMC json value"""
    if v is None:
        return None
    if "binary" in v:
        bits = v["binary"]
        w = (len(bits) + 7) // 8 * 8
        bits = bits.rjust(w, "0")
        n = int(bits, 2)
        return n.to_bytes(w // 8, "little")
    if v.get("name") == "array" or "elements" in v:
        out = b""
        for e in v.get("elements", []):
            b = val_bytes(e.get("value"))
            if b is None:
                return None
            out += b
        return out
    if v.get("name") == "struct" or "members" in v:
        out = b""
        for m in v.get("members", []):
            b = val_bytes(m.get("value"))
            if b is None:
                return None
            out += b
        return out
    return None


def trace_inputs(trace, entry):
    """first whole-object assignment to each local of the harness function"""
    ins = {}
    for st in trace or []:
        if st.get("stepType") != "assignment":
            continue
        loc = st.get("sourceLocation", {})
        if loc.get("function") != entry:
            continue
        lhs = st.get("lhs", "")
        if not re.match(r"^[A-Za-z_][A-Za-z_0-9]*$", lhs):
            continue
        name = lhs[:-2] if lhs.endswith("_o") else lhs
        if name in ins:
            continue
        b = val_bytes(st.get("value"))
        if b is not None:
            ins[name] = b.hex()
    return ins


# ---------------------------------------------------------------------------------------
# native build (replay driver)

def native_lib(pid, g, env):
    """static library of the whole of /repo/src (current tree), ASan/UBSan, once per run and
    configuration; supplies whatever the group's own sources reference"""
    cfg = ("nd" if g["ndebug"] else "dbg") + ("_fast" if g["fast"] else "")
    ldir = os.path.join(WORK, pid, "_native", cfg)
    lib = os.path.join(ldir, "libbee2n.a")
    with _cache_guard:
        lk = _cache_locks.setdefault(lib, threading.Lock())
    with lk:
        if os.path.exists(lib):
            return lib
        os.makedirs(os.path.join(ldir, "tmp"), exist_ok=True)
        e2 = dict(env)
        e2["TMPDIR"] = os.path.join(ldir, "tmp")
        cm = open(os.path.join(REPO, "src/CMakeLists.txt")).read()
        m = re.search(r"set\(src(.*?)\)", cm, re.S)
        files = m.group(1).split() if m else []
        if not files:
            raise Infra("cannot read the source list from src/CMakeLists.txt")
        base = ["gcc", "-g", "-O1", "-fsanitize=address,undefined", "-fno-sanitize=alignment", "-fno-sanitize-recover=undefined",
                "-fno-omit-frame-pointer", "-w", "-c", "-I", os.path.join(REPO, "include"),
                "-I", os.path.join(REPO, "src")]
        if g["ndebug"]:
            base.append("-DNDEBUG")
        if g["fast"]:
            base.append("-DSAFE_FAST")
        objs = []
        def cc(f):
            o = os.path.join(ldir, f.replace("/", "_")[:-2] + ".o")
            extra = ["-DutilAssert=utilAssert_real"] if f.endswith("core/util.c") else []
            rc, out, err, _, _ = slot_sh(base + extra + [os.path.join(REPO, "src", f), "-o", o], timeout=300, env=e2)
            if rc != 0:
                raise Infra("native library: %s: %s" % (f, err[-800:]))
            return o
        with cf.ThreadPoolExecutor(8) as ex:
            objs = list(ex.map(cc, files))
        rc, out, err, _, _ = sh(["ar", "rcs", lib + ".part"] + objs, timeout=900, env=e2)
        if rc != 0:
            raise Infra("ar failed: " + err[-500:])
        os.rename(lib + ".part", lib)
    return lib


def native_build(g, wd, env):
    exe = os.path.join(wd, "native")
    if os.path.exists(exe):
        return exe
    rw = {}
    inc = ["-I", os.path.join(REPO, "include"), "-I", os.path.join(REPO, "src"), "-I", REPO,
           "-I", os.path.join(VERIF, "include"), "-I", VERIF]
    defs = ["-DVERIF_NATIVE", "-DHARNESS=" + g["entry"]] + ["-D" + d for d in g["defs"]] + \
        ["-D" + d for d in g["native_defs"]]
    if g["ndebug"]:
        defs.append("-DNDEBUG")
    if g["fast"]:
        defs.append("-DSAFE_FAST")
    srcs = g["native_srcs"] if g["native_srcs"] is not None else g["srcs"]
    if g.get("native_rewrite"):
        # must-fire rewrite rules applied to scratch copies of repository sources for the native build as well
        rw = apply_rewrites(g, wd)
        for path in rw:
            if path not in srcs:
                srcs = list(srcs) + [path]
    lib = native_lib(g.get("_pid", "X"), g, env)
    base = ["gcc", "-g", "-O1", "-fsanitize=address,undefined", "-fno-sanitize=alignment", "-fno-sanitize-recover=undefined",
            "-fno-omit-frame-pointer", "-w"] + inc + defs
    objs = []
    units = [(os.path.join(VERIF, g["harness"]), []), (os.path.join(VERIF, "lib/native_rt.c"), [])] + \
        [((os.path.join(VERIF, s[1:]) if s.startswith("@") else rw.get(s, os.path.join(REPO, s))), list(g["native_cflags"]))
         for s in srcs if not s.endswith("core/util.c")] + \
        [(os.path.join(REPO, s), ["-D" + x for x in d]) for (s, d) in g["extra_units"]]
    for i, (f, extra) in enumerate(units):
        if f.startswith(REPO + os.sep) or "/stubs/" in f:
            # repository sources (and stubs) do not depend on the harness parameters: compile once per run and flag set
            cfg = ["-DVERIF_NATIVE"] + (["-DNDEBUG"] if g["ndebug"] else []) + (["-DSAFE_FAST"] if g["fast"] else [])
            flags = ["gcc", "-g", "-O1", "-fsanitize=address,undefined", "-fno-sanitize=alignment",
                     "-fno-sanitize-recover=undefined", "-fno-omit-frame-pointer", "-w"] + inc + cfg + extra
            key = hashlib.sha1(("\0".join([f] + flags)).encode()).hexdigest()[:16]
            cdir = os.path.join(WORK, g.get("_pid", "X"), "_ncache")
            os.makedirs(cdir, exist_ok=True)
            o = os.path.join(cdir, key + ".o")
            with _cache_guard:
                lk = _cache_locks.setdefault(o, threading.Lock())
            with lk:
                if not os.path.exists(o):
                    e2 = dict(env); e2["TMPDIR"] = os.path.join(cdir, "tmp"); os.makedirs(e2["TMPDIR"], exist_ok=True)
                    rc, out, err, _, to = slot_sh(flags + ["-c", f, "-o", o + ".part.o"], timeout=600, env=e2)
                    if rc != 0:
                        raise Infra("native build failed: %s" % (err or out)[-2000:])
                    os.rename(o + ".part.o", o)
            objs.append(o)
            continue
        o = os.path.join(wd, "n%d.o" % i)
        rc, out, err, _, to = slot_sh(base + extra + ["-c", f, "-o", o], timeout=600, env=env)
        if rc != 0:
            raise Infra("native build failed: %s" % (err or out)[-2000:])
        objs.append(o)
    rc, out, err, _, to = slot_sh(["gcc", "-fsanitize=address,undefined", "-Wl,--allow-multiple-definition"] + objs + [lib, "-o", exe, "-lpthread", "-ldl"],
                                  timeout=600, env=env)
    if rc != 0:
        raise Infra("native build failed: %s" % (err or out)[-2000:])
    return exe


def native_env(env):
    e = dict(env)
    e["ASAN_OPTIONS"] = "exitcode=99:detect_leaks=0:abort_on_error=0:allocator_may_return_null=1"
    e["UBSAN_OPTIONS"] = "halt_on_error=1:exitcode=99:print_stacktrace=1"
    return e


def native_replay(g, wd, env, inputs):
    exe = native_build(g, wd, env)
    f = os.path.join(wd, "replay_in_%s.txt" % hashlib.md5(json.dumps(inputs, sort_keys=True).encode()).hexdigest()[:8])
    with open(f, "w") as fh:
        for k, v in inputs.items():
            fh.write("%s %s\n" % (k, v))
    rc, out, err, wall, to = sh([exe, "--replay", f], timeout=120, env=native_env(env))
    return dict(cmd="%s --replay <inputs>" % os.path.basename(exe), rc=rc,
                out=(out + err)[-4000:], reproduced=(rc in (1, 99) or rc < 0) and not to)


def native_search(g, wd, env, n, seed):
    exe = native_build(g, wd, env)
    outf = os.path.join(wd, "search_out.txt")
    if os.path.exists(outf):
        os.unlink(outf)
    rc, out, err, wall, to = sh([exe, "--search", str(n), "--seed", str(seed), "--out", outf],
                                timeout=max(1200, g["timeout"]), env=native_env(env))
    inputs = {}
    if os.path.exists(outf):
        for line in open(outf):
            parts = line.split()
            if len(parts) == 2:
                inputs[parts[0]] = parts[1]
            elif len(parts) == 1:
                inputs[parts[0]] = ""
    return dict(cmd="%s --search %d --seed %d" % (os.path.basename(exe), n, seed), rc=rc,
                out=(out + err)[-4000:], found=(rc in (1, 99) or rc < 0) and not to,
                inputs=inputs, wall=wall)


def suite_run(g, wd, env):
    """backend "suite": the repository's own test program built from /repo's current sources under ASan/UBSan
    with the must-fire rewrite rules of the group applied to scratch copies (e.g. blob pages of one octet, so
    that every state / stack blob is allocated at exactly the size the code asked for), then run once."""
    rw = apply_rewrites(g, wd)
    files = []
    for top in ("src", "test"):
        for root, _, names in os.walk(os.path.join(REPO, top)):
            for nm in sorted(names):
                if nm.endswith(".c") and not re.match(r"bash_f(32|64|avx2|avx512|neon|sse2)\.c$", nm):
                    rel = os.path.relpath(os.path.join(root, nm), REPO)
                    files.append(rw.get(rel, os.path.join(REPO, rel)))
    if len(files) < 100:
        raise Infra("suite: only %d source files found under %s" % (len(files), REPO))
    lst = os.path.join(wd, "files.txt")
    open(lst, "w").write("\n".join(files) + "\n")
    flags = "-g -O1 -fsanitize=address,undefined -fno-sanitize=alignment,pointer-overflow -fno-omit-frame-pointer -w " \
            "-I%s/include -I%s/src -I%s -I%s/src/crypto/bash %s" % (REPO, REPO, REPO, REPO, " ".join(g["native_cflags"]))
    script = "cd %s && mkdir -p obj && cat files.txt | xargs -P 8 -I{} sh -c 'gcc %s -c {} -o obj/$(echo {} | tr / _).o' && " \
             "gcc -fsanitize=address,undefined obj/*.o -o suite -lpthread" % (wd, flags)
    rc, out, err, _, to = slot_sh(["bash", "-c", script], timeout=1200, env=env)
    if rc != 0:
        raise Infra("suite build failed: %s" % (err or out)[-2000:])
    e = native_env(env)
    rc, out, err, wall, to = sh([os.path.join(wd, "suite")], timeout=max(600, g["timeout"]), env=e, cwd=wd)
    txt = out + err
    if to:
        raise Infra("suite run timed out")
    bad = rc != 0 or re.search(r"Test: Err|ERROR: AddressSanitizer|runtime error:", txt)
    return dict(cmd="suite (repository test program, ASan/UBSan, rewrites: %s)" % "; ".join(r[1] for r in g["rewrite"] if not isinstance(r, dict)),
                rc=rc, out=txt[-6000:], found=bool(bad), inputs={}, wall=wall,
                tests=len(re.findall(r"Test: OK", txt)))


# ---------------------------------------------------------------------------------------

def is_canary(r):
    return r.get("description", "").startswith("canary")


def run_group(pid, g, tier, seed, keep=False):
    """returns a dict describing the outcome of one obligation group"""
    wd = os.path.join(WORK, pid, re.sub(r"[^A-Za-z0-9_.-]", "_", g["name"]))
    shutil.rmtree(wd, ignore_errors=True)
    os.makedirs(os.path.join(wd, "tmp"))
    env = dict(os.environ)
    env["TMPDIR"] = os.path.join(wd, "tmp")
    t0 = time.time()
    g = dict(g)
    g["_pid"] = pid
    R = dict(name=g["name"], level=g["level"], bound=g["bound"], backend=g["backend"],
             required=g["required"], fn=list(g["fn"]), arch=g["arch"], obligations=0,
             discharged=0, failed=[], unknown=[], canaries=0, canaries_ok=0, infra=None,
             violations=[], note=g["note"], neg_control=g["neg_control"], samples=[])
    try:
        if g["backend"] == "suite":
            ns = suite_run(g, wd, env)
            R["backend_used"] = "native-suite"
            R["native_search"] = dict(cmd=ns["cmd"], found=ns["found"], wall=round(ns["wall"], 1))
            R["native_runs"] = R["native_completed"] = ns["tests"]
            R["checker_cmd"] = ns["cmd"]
            if ns["found"]:
                m = re.search(r"SUMMARY: (.*)|(\S+: runtime error: .*)|(\w+Test: Err)", ns["out"])
                R["violations"].append(dict(
                    group=g["name"], obligation=g["name"] + ".suite",
                    description=(m.group(0) if m else "test program failed"), location="",
                    backend="native-suite", inputs={}, native=ns, reproduced=True,
                    verifier_output="repository test program under ASan/UBSan with exact-size blobs (stand-in, not a solver answer)"))
            elif ns["tests"] == 0:
                R["infra"] = "suite ran no test: " + ns["out"][-300:]
            return R
        if g["backend"] == "native":
            ns = native_search(g, wd, env, g["search"], seed)
            R["backend_used"] = "native-search"
            R["native_search"] = dict(cmd=ns["cmd"], found=ns["found"], wall=round(ns["wall"], 1))
            m = re.search(r"OK runs=(\d+) completed=(\d+)", ns["out"])
            R["native_runs"] = int(m.group(1)) if m else 0
            R["native_completed"] = int(m.group(2)) if m else 0
            R["checker_cmd"] = ns["cmd"]
            if ns["found"]:
                m = re.search(r'FAIL obligation="([^"]*)"', ns["out"])
                R["violations"].append(dict(
                    group=g["name"], obligation=g["name"] + ".native",
                    description=(m.group(1) if m else "native search failure"), location="",
                    backend="native-search", inputs=ns["inputs"], native=ns, reproduced=True,
                    verifier_output="native differential search (stand-in, no solver answer is available for this obligation)"))
            elif R["native_completed"] == 0:
                R["infra"] = "native search completed no sample (assumptions never satisfied): " + ns["out"][-300:]
            return R
        binary = build_goto(g, wd, env, pid)
        if g["spec_unwind"]:
            rc, lout, err, _, _ = slot_sh(["goto-instrument", "--show-loops", binary], timeout=900, env=env)
            ids = [m.group(1) for m in re.finditer(r"^Loop (\S+):", lout, re.M)]
            g = dict(g)
            g["unwindset"] = list(g["unwindset"]) + ["%s:%d" % (i, g["spec_unwind"]) for i in ids
                                                     if re.match(r"^(h_|r_|o_|ct_|v_|mon_|spec_|memcpy\.|memmove\.|memset\.|memcmp\.)", i)]
        cr = run_cbmc(g, binary, env)
        R["backend_used"] = cr["backend"]
        R["solver_wall_s"] = round(cr["wall"], 2)
        R["checker_cmd"] = " ".join(os.path.basename(x) if x.startswith(wd) else x for x in cr["cmd"])
        if "ignoring forall" in (cr["msgs"] or "") or "ignoring exists" in (cr["msgs"] or ""):
            raise Infra("back end ignored a quantifier: result not trusted")
        results = cr["results"]
        undecided = results is None or cr["timed_out"]
        if results is not None:
            exp = [re.compile(p) for p in g["expect_fail"]]
            for r in results:
                desc = r.get("description", "")
                st = r.get("status")
                ob = dict(id=r.get("property"), description=desc, status=st,
                          location="%s:%s" % (r.get("sourceLocation", {}).get("file", "?"),
                                              r.get("sourceLocation", {}).get("line", "?")))
                if is_canary(r) or any(p.search(desc) for p in exp):
                    R["canaries"] += 1
                    if st == "FAILURE":
                        R["canaries_ok"] += 1
                    continue
                R["obligations"] += 1
                if st == "SUCCESS":
                    R["discharged"] += 1
                    if len(R["samples"]) < 2:
                        R["samples"].append("%s: %s" % (ob["id"], desc))
                elif st == "FAILURE":
                    ob["trace"] = r.get("trace")
                    R["failed"].append(ob)
                else:
                    R["unknown"].append(ob)
        if undecided:
            R["unknown"].append(dict(id=g["name"], description="no answer from %s (%s)" % (
                cr["backend"], "timeout %ds" % g["timeout"] if cr["timed_out"] else
                "rc=%s %s" % (cr["rc"], (cr["msgs"] or "")[-300:])), status="UNKNOWN"))
        # ------ negative control groups: must fail
        if g["neg_control"]:
            ok = len(R["failed"]) > 0
            R["neg_control_ok"] = ok
            R["failed"] = []
            R["obligations"] = 0
            R["discharged"] = 0
            if not ok and not R["unknown"]:
                R["infra"] = "negative control did not fail: the mechanism it guards is vacuous"
            R["unknown"] = []
            return R
        # ------ vacuity
        if results is not None and not undecided and R["canaries"] != R["canaries_ok"]:
            R["infra"] = "vacuity: %d of %d canaries/expected failures were not reached" % (
                R["canaries"] - R["canaries_ok"], R["canaries"])
        if results is not None and not undecided and isinstance(g["loops"], dict):
            want = sum(len(v) for v in g["loops"].values())
            got = len([r for r in results if ".loop_invariant_step." in (r.get("property") or "")])
            if got < want:
                R["infra"] = (R["infra"] or "") + " vacuity: %d loop contracts annotated, %d invariant-step obligations generated" % (want, got)
        if results is not None and R["obligations"] == 0 and not undecided:
            R["infra"] = (R["infra"] or "") + " vacuity: zero obligations generated"
        # ------ failures -> replay
        for ob in R["failed"]:
            v = dict(group=g["name"], obligation=ob["id"], description=ob["description"],
                     location=ob["location"], backend=cr["backend"], inputs={}, native=None,
                     reproduced=False)
            if g["native"]:
                ins = trace_inputs(ob.get("trace"), g["entry"])
                v["inputs"] = ins
                try:
                    nr = native_replay(g, wd, env, ins)
                    v["native"] = nr
                    v["reproduced"] = nr["reproduced"]
                    if not nr["reproduced"] and g["search"]:
                        ns = native_search(g, wd, env, g["search"], seed)
                        if ns["found"]:
                            v["native"] = ns
                            v["inputs"] = ns["inputs"]
                            v["reproduced"] = True
                except Infra as e:
                    v["native"] = dict(error=str(e))
            v["verifier_output"] = summarize_trace(ob.get("trace"))
            ob.pop("trace", None)
            R["violations"].append(v)
        # ------ unknown -> native search may still produce a violation
        if R["unknown"] and g["native"] and g["search"]:
            try:
                ns = native_search(g, wd, env, g["search"], seed)
                R["native_search"] = dict(cmd=ns["cmd"], found=ns["found"], wall=round(ns["wall"], 1))
                if ns["found"]:
                    m = re.search(r'FAIL obligation="([^"]*)"', ns["out"])
                    R["violations"].append(dict(
                        group=g["name"], obligation=g["name"] + ".native",
                        description=(m.group(1) if m else "native search failure"),
                        location="", backend="native-search", inputs=ns["inputs"], native=ns,
                        reproduced=True,
                        verifier_output="solver gave no answer: " + R["unknown"][0]["description"]))
            except Infra as e:
                R["native_search"] = dict(error=str(e))
    except Infra as e:
        R["infra"] = str(e)
    finally:
        R["wall_s"] = round(time.time() - t0, 2)
        if not keep:
            shutil.rmtree(wd, ignore_errors=True)
    return R


def summarize_trace(trace, limit=60):
    if not trace:
        return ""
    lines = []
    for st in trace:
        t = st.get("stepType")
        loc = st.get("sourceLocation", {})
        where = "%s:%s" % (os.path.basename(loc.get("file", "?")), loc.get("line", "?"))
        if t == "assignment" and not st.get("hidden"):
            v = st.get("value", {})
            lines.append("%s %s=%s" % (where, st.get("lhs"), v.get("data", v.get("name"))))
        elif t == "function-call":
            lines.append("%s call %s" % (where, st.get("function", {}).get("displayName")))
        elif t == "failure":
            lines.append("%s FAILURE %s: %s" % (where, st.get("property"), st.get("reason")))
    if len(lines) > limit:
        lines = lines[:limit // 3] + ["..."] + lines[-(2 * limit // 3):]
    return "\n".join(lines)


# ---------------------------------------------------------------------------------------
# known findings

def load_known():
    """lines:  known: property=<id> group=<regex> obligation=<regex> input=<name>:<hexregex> -- text
               fixed: property=<id> <commit> <what failed>"""
    known = []
    p = os.path.join(VERIF, "KNOWN_FINDINGS.txt")
    if not os.path.exists(p):
        return known
    for line in open(p):
        line = line.strip()
        if not line or line.startswith("#") or line.startswith("fixed:"):
            continue
        if line.startswith("known:"):
            head, _, text = line[6:].partition(" -- ")
            d = dict(text=text.strip())
            for tok in head.split():
                k, _, v = tok.partition("=")
                d[k] = v
            known.append(d)
    return known


def match_known(pid, v, known):
    for k in known:
        if k.get("property") != pid:
            continue
        if "group" in k and not re.fullmatch(k["group"], v["group"]):
            continue
        if "obligation" in k and not re.search(k["obligation"], v["description"] + " " + str(v["obligation"])):
            continue
        if "input" in k:
            name, _, rx = k["input"].partition(":")
            if not re.fullmatch(rx, v["inputs"].get(name, "")):
                continue
        return k
    return None


# ---------------------------------------------------------------------------------------

def assumption_scan():
    """mechanical scan of /verif for assume-like constructs (listed in the evidence)"""
    hits = []
    for root in ("harness", "contracts", "stubs", "lib", "include"):
        for dp, dn, fn in os.walk(os.path.join(VERIF, root)):
            for f in fn:
                if not f.endswith((".c", ".h")):
                    continue
                p = os.path.join(dp, f)
                for i, line in enumerate(open(p, errors="replace"), 1):
                    if "__CPROVER_assume" in line and "#define" not in line:
                        hits.append("%s:%d" % (os.path.relpath(p, VERIF), i))
    return hits


def run_property(pid, plan, tier, seed, jobs, only=None, keep=False):
    t0 = time.time()
    groups = [g for g in plan.GROUPS if (tier == "thorough" or g["tier"] == "quick")]
    if only:
        groups = [g for g in groups if re.search(only, g["name"])]
    os.makedirs(os.path.join(WORK, pid), exist_ok=True)
    results = []
    set_jobs(jobs)
    with cf.ThreadPoolExecutor(jobs * 2) as ex:
        futs = [ex.submit(run_group, pid, g, tier, seed, keep) for g in groups]
        for f in futs:
            results.append(f.result())
    known = load_known()
    violations, known_hits, undecided, infra = [], [], [], []
    os.makedirs(os.path.join(REPLAY_OUT, pid), exist_ok=True)
    for R in results:
        if R["infra"]:
            infra.append("%s: %s" % (R["name"], R["infra"]))
        if R["unknown"] and not R["violations"]:
            (undecided if R["required"] else []).append(
                "%s: %s" % (R["name"], R["unknown"][0]["description"]))
        for v in R["violations"]:
            k = match_known(pid, v, known)
            if k:
                known_hits.append((k, v))
                continue
            path = os.path.join(REPLAY_OUT, pid, re.sub(r"[^A-Za-z0-9_.-]", "_",
                                "%s__%s.json" % (v["group"], v["obligation"])))
            doc = dict(property=pid, group=v["group"], failed_obligation=v["obligation"],
                       description=v["description"], location=v["location"],
                       backend=v["backend"], inputs=v["inputs"], native=v["native"],
                       reproduced_natively=v["reproduced"],
                       verifier_output=v["verifier_output"],
                       rerun="./check %s --replay %s" % (pid, path))
            json.dump(doc, open(path, "w"), indent=1)
            violations.append((v, path))
    wall = time.time() - t0
    write_evidence(pid, plan, tier, seed, results, violations, known_hits, undecided, infra, wall)
    if not keep:
        shutil.rmtree(os.path.join(WORK, pid), ignore_errors=True)
    # ---- report
    for R in results:
        tag = "ok"
        if R["infra"]:
            tag = "INFRA"
        elif R["violations"]:
            tag = "FAILED"
        elif R["unknown"]:
            tag = "unknown"
        if R["neg_control"]:
            tag = "neg-control " + ("fails as it must" if R.get("neg_control_ok") else "DID NOT FAIL")
        print("[%s] %-40s %-7s lvl=%-2s %s obl=%d/%d canary=%d/%d %.1fs %s" % (
            pid, R["name"], tag, R["level"], R.get("backend_used", R["backend"]),
            R["discharged"], R["obligations"], R["canaries_ok"], R["canaries"], R["wall_s"],
            (R["infra"] or "")[:300]))
        for u in R["unknown"][:3]:
            print("      unknown: %s" % u["description"][:200])
    for k, v in known_hits:
        print("KNOWN-FINDING: property=%s %s" % (pid, k["text"]))
    for v, path in violations:
        print("VIOLATION property=%s replay=%s%s" % (
            pid, path, "" if v["reproduced"] else " no-failing-input-found"))
        print("      obligation %s [%s] %s (%s)" % (v["obligation"], v["group"], v["description"], v["location"]))
    if violations:
        return 1
    if infra or undecided:
        for x in infra + undecided:
            print("UNDECIDED %s" % x)
        return 2
    return 0


def write_evidence(pid, plan, tier, seed, results, violations, known_hits, undecided, infra, wall):
    proved = [R for R in results if R["level"] in ("P", "Pc") and not R["neg_control"]]
    bounded = [R for R in results if R["level"] == "B" and not R["neg_control"]]
    other = [R for R in results if R["level"] not in ("P", "Pc", "B") and not R["neg_control"]]
    fns = sorted({f for R in results for f in R["fn"]})
    cov = dict(
        obligations=sum(R["obligations"] for R in proved),
        discharged=sum(R["discharged"] for R in proved),
        checker_cmd="goto-cc <real sources of /repo> ; goto-instrument --dfcc … ; " +
                    (results[0].get("checker_cmd", "cbmc") if results else "cbmc"),
        trusted_base=list(getattr(plan, "TRUSTED", [])) + [
            "CBMC 6.11 C semantics and contract instrumentation; MiniSat/cvc5/z3 back ends",
            "lib/cbmc_shims.c: utilAssert sink and the five pointer-disjointness predicates",
            "C semantics, not the generated machine code"],
        functions_under_contract=fns,
        groups=[dict(name=R["name"], level=R["level"], bound=R["bound"], arch=R["arch"],
                     backend=R.get("backend_used", R["backend"]),
                     obligations=R["obligations"], discharged=R["discharged"],
                     failed=len(R["failed"]), unknown=len(R["unknown"]),
                     canaries_reached="%d/%d" % (R["canaries_ok"], R["canaries"]),
                     solver_wall_s=R.get("solver_wall_s"), wall_s=R["wall_s"],
                     required=R["required"], infra=R["infra"], note=R["note"],
                     neg_control=R["neg_control"], neg_control_ok=R.get("neg_control_ok"),
                     functions=R["fn"], native_search=R.get("native_search"))
                for R in results],
        bounded=dict(groups=len(bounded),
                     obligations=sum(R["obligations"] for R in bounded),
                     discharged=sum(R["discharged"] for R in bounded),
                     bounds=sorted({R["bound"] for R in bounded if R["bound"]}),
                     note="bounded stand-ins: complete in values up to the stated bound; "
                          "never counted in obligations/discharged"),
        supporting=dict(groups=len(other), obligations=sum(R["obligations"] for R in other),
                        discharged=sum(R["discharged"] for R in other)),
        samples=[s for R in results for s in R["samples"]][:12],
        solver_time_s=round(sum(R.get("solver_wall_s") or 0 for R in results), 1),
        undecided=undecided, infrastructure=infra,
        known_findings=[k["text"] for k, v in known_hits],
        assumption_scan=assumption_scan(),
        not_covered=list(getattr(plan, "NOT_COVERED", [])),
        explanation=getattr(plan, "LEVEL_TEXT", ""),
        evaluations=sum(R["obligations"] for R in results),
        distinct_nontrivial=sum(R["discharged"] for R in results),
        rule="one case = one proof obligation generated by CBMC from the real source "
             "(contract clause, loop-invariant base/step, bounds/pointer check, bee2 ASSERT); "
             "non-trivial = decided by the back end (not removed by simplification is not "
             "measurable: every generated obligation is counted once by its CBMC property id)",
    )
    ev = dict(property_id=pid, tier=tier, seed=seed, level=plan.LEVEL, coverage=cov,
              assumptions=list(getattr(plan, "ASSUMPTIONS", [])),
              wall_s=round(wall, 1), violations=len(violations))
    os.makedirs(os.path.join(VERIF, "evidence"), exist_ok=True)
    json.dump(ev, open(os.path.join(VERIF, "evidence", pid + ".json"), "w"), indent=1)
