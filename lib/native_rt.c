/*
 * native_rt.c -- run-time of the native (replay / search) build of a harness.
 *
 *   driver --replay FILE        run the harness once on the inputs of FILE
 *                               (lines "name hexoctets"; missing names -> zeros)
 *   driver --search N --seed S  run the harness on N generated inputs; on the first
 *                               failing one write the inputs to --out FILE
 * exit 0: no obligation failed; 1: an obligation failed (FAIL line printed);
 * 3: replay input violates the harness's assumptions; sanitizer reports abort (exit 99
 * through ASAN_OPTIONS/UBSAN_OPTIONS set by the engine).
 */
#include <stdio.h>
#include <stdlib.h>
#include <string.h>
#include <setjmp.h>
#include <stdint.h>

#ifndef HARNESS
#error "HARNESS"
#endif
extern void HARNESS(void);

#define MAXIN 256
static struct { char name[64]; unsigned char* data; size_t len; } g_in[MAXIN], g_rec[MAXIN];
static size_t g_nin, g_nrec;
static int g_mode; /* 0 replay, 1 search */
static jmp_buf g_jmp;
static uint64_t g_s[2];
static const char* g_out;
static size_t g_canaries;
static void* g_bufs[MAXIN];
static size_t g_nbufs;

static uint64_t rnd(void)
{
	uint64_t s1 = g_s[0], s0 = g_s[1];
	g_s[0] = s0; s1 ^= s1 << 23;
	g_s[1] = s1 ^ s0 ^ (s1 >> 17) ^ (s0 >> 26);
	return g_s[1] + s0;
}

unsigned long long v_rand(void) { return rnd(); }
int v_replaying(void);
void v_update(const char* name, const void* p, size_t n);

static void gen(unsigned char* p, size_t n)
{
	size_t i, m = rnd() % 10;
	for (i = 0; i < n; ++i)
		switch (m)
		{
		case 0: p[i] = 0; break;
		case 1: p[i] = 0xFF; break;
		case 2: p[i] = (rnd() % 8) ? 0 : (unsigned char)(1u << (rnd() % 8)); break;
		case 3: p[i] = (rnd() % 8) ? 0xFF : (unsigned char)rnd(); break;
		case 4: p[i] = (i == 0) ? (unsigned char)rnd() : 0; break;
		case 5: p[i] = (i + 1 == n) ? (unsigned char)rnd() : 0xFF; break;
		default: p[i] = (unsigned char)rnd();
		}
	/* word-sized tweaks: +-1 around all-zero / all-one patterns */
	if (n && (rnd() % 4) == 0)
		p[0] ^= (unsigned char)(rnd() % 4);
}

static void record(const char* name, const void* p, size_t n)
{
	if (g_nrec >= MAXIN) return;
	strncpy(g_rec[g_nrec].name, name, 63);
	g_rec[g_nrec].data = (unsigned char*)realloc(g_rec[g_nrec].data, n ? n : 1);
	memcpy(g_rec[g_nrec].data, p, n);
	g_rec[g_nrec].len = n;
	++g_nrec;
}

void v_read(const char* name, void* p, size_t n)
{
	size_t i;
	if (g_mode == 0)
	{
		memset(p, 0, n);
		for (i = 0; i < g_nin; ++i)
			if (strcmp(g_in[i].name, name) == 0)
			{
				memcpy(p, g_in[i].data, g_in[i].len < n ? g_in[i].len : n);
				break;
			}
	}
	else
		gen((unsigned char*)p, n);
	record(name, p, n);
}

int v_replaying(void) { return g_mode == 0; }

/* a native-only tweak changed an input after it was read: record the new value */
void v_update(const char* name, const void* p, size_t n)
{
	size_t i;
	for (i = 0; i < g_nrec; ++i)
		if (strcmp(g_rec[i].name, name) == 0 && g_rec[i].len == n)
			memcpy(g_rec[i].data, p, n);
}

void* v_buf(const char* name, size_t n)
{
	void* p = malloc(n ? n : 1);
	if (n == 0)
	{
		/* zero-length buffer: hand out a pointer with no addressable octet */
		free(p);
		p = malloc(1);
		g_bufs[g_nbufs++] = p;
		return (char*)p + 1;
	}
	if (g_nbufs < MAXIN) g_bufs[g_nbufs++] = p;
	v_read(name, p, n);
	return p;
}

/* exactly n addressable octets (ASan red zones on both sides); n == 0: none */
void* v_alloc(size_t n)
{
	char* p = (char*)malloc(n ? n : 1);
	if (g_nbufs < MAXIN) g_bufs[g_nbufs++] = p;
	return n ? p : p + 1;
}

void v_skip(const char* cond)
{
	if (g_mode == 0)
	{
		printf("SKIP replay input violates assumption: %s\n", cond);
		exit(3);
	}
	longjmp(g_jmp, 1);
}

static void dump(FILE* f)
{
	size_t i, k;
	for (i = 0; i < g_nrec; ++i)
	{
		fprintf(f, "%s ", g_rec[i].name);
		for (k = 0; k < g_rec[i].len; ++k)
			fprintf(f, "%02x", g_rec[i].data[k]);
		fprintf(f, "\n");
	}
}

void v_fail(const char* msg, const char* file, int line)
{
	printf("FAIL obligation=\"%s\" at %s:%d\n", msg, file, line);
	printf("INPUTS\n");
	dump(stdout);
	if (g_out)
	{
		FILE* f = fopen(g_out, "w");
		if (f) { dump(f); fclose(f); }
	}
	fflush(stdout);
	exit(1);
}

void v_canary(const char* msg)
{
	(void)msg;
	++g_canaries;
}

/* sink of the library's ASSERT in the native build */
void utilAssert(int e, const char* file, int line)
{
	if (!e)
		v_fail("bee2 ASSERT", file, line);
}

/* called by the sanitizer run-time on a memory error: leave the inputs behind */
void __asan_on_error(void)
{
	printf("FAIL obligation=\"memory safety (AddressSanitizer)\"\nINPUTS\n");
	dump(stdout);
	if (g_out)
	{
		FILE* f = fopen(g_out, "w");
		if (f) { dump(f); fclose(f); }
	}
	fflush(stdout);
}

/* called by the UBSan run-time when it reports (same purpose) */
void __ubsan_on_report(void)
{
	static int once;
	if (once++) return;
	printf("FAIL obligation=\"undefined behaviour (UBSan)\"\nINPUTS\n");
	dump(stdout);
	if (g_out)
	{
		FILE* f = fopen(g_out, "w");
		if (f) { dump(f); fclose(f); }
	}
	fflush(stdout);
}

static int hexval(int c)
{
	if (c >= '0' && c <= '9') return c - '0';
	if (c >= 'a' && c <= 'f') return c - 'a' + 10;
	if (c >= 'A' && c <= 'F') return c - 'A' + 10;
	return -1;
}

static void load(const char* path)
{
	static char line[1 << 20];
	FILE* f = fopen(path, "r");
	if (!f) { perror(path); exit(2); }
	while (fgets(line, sizeof line, f) && g_nin < MAXIN)
	{
		char* sp = strchr(line, ' ');
		size_t n = 0;
		if (!sp) continue;
		*sp++ = 0;
		strncpy(g_in[g_nin].name, line, 63);
		g_in[g_nin].data = (unsigned char*)malloc(strlen(sp) / 2 + 1);
		while (hexval(sp[0]) >= 0 && hexval(sp[1]) >= 0)
		{
			g_in[g_nin].data[n++] = (unsigned char)(hexval(sp[0]) * 16 + hexval(sp[1]));
			sp += 2;
		}
		g_in[g_nin].len = n;
		++g_nin;
	}
	fclose(f);
}

int main(int argc, char** argv)
{
	long n = 1, i, done = 0;
	uint64_t seed = 1;
	int a;
	for (a = 1; a < argc; ++a)
	{
		if (!strcmp(argv[a], "--replay") && a + 1 < argc) { g_mode = 0; load(argv[++a]); }
		else if (!strcmp(argv[a], "--search") && a + 1 < argc) { g_mode = 1; n = atol(argv[++a]); }
		else if (!strcmp(argv[a], "--seed") && a + 1 < argc) seed = strtoull(argv[++a], 0, 10);
		else if (!strcmp(argv[a], "--out") && a + 1 < argc) g_out = argv[++a];
	}
	g_s[0] = seed * 0x9E3779B97F4A7C15ull + 1; g_s[1] = seed ^ 0xD1B54A32D192ED03ull;
	for (i = 0; i < 8; ++i) rnd();
	for (i = 0; i < n; ++i)
	{
		size_t k;
		g_nrec = 0;
		if (setjmp(g_jmp) == 0)
		{
			HARNESS();
			++done;
		}
		for (k = 0; k < g_nbufs; ++k) free(g_bufs[k]);
		g_nbufs = 0;
	}
	printf("OK runs=%ld completed=%ld canaries=%zu\n", n, done, g_canaries);
	return 0;
}
