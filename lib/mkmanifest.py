#!/usr/bin/env python3
"""Regenerates MANIFEST.json from lib/manifest_data.py (kept valid at all times)."""
import json, os, sys
HERE = os.path.dirname(os.path.dirname(os.path.abspath(__file__)))
sys.path.insert(0, os.path.join(HERE, "lib"))
import manifest_data as D

checks = []
for pid, c in sorted(D.CHECKS.items()):
    checks.append(dict(
        property_id=pid,
        quick_cmd="./check %s --tier quick" % pid,
        thorough_cmd="./check %s --tier thorough" % pid,
        evidence_file="evidence/%s.json" % pid,
        replay_cmd_template="./check %s --replay {path}" % pid,
        engine="cbmc-contracts",
        level_claimed=dict(category=c["category"], text=c["text"], design_ref=c["design_ref"]),
        level_note=c["note"],
        technique=c["technique"]))
m = dict(
    version=1,
    setup_cmd="python3 lib/setup_check.py",
    hooks=dict(guard="BEE2_VERIF",
               enable="none needed: contracts and loop contracts live in /verif and are attached to the unmodified sources by goto-instrument; no hook code exists in /repo",
               baseline_off_cmd="cmake --build /repo/_build && ctest --test-dir /repo/_build -j8 --timeout 900",
               source_commits=[], add_only=True),
    engines=[dict(name="cbmc-contracts", path="lib/engine.py",
                  serves_properties=sorted(D.CHECKS),
                  kind_free_text="contract-based deductive verification: goto-cc on /repo's real sources, goto-instrument --dfcc (function and loop contracts), cbmc with SAT / cvc5 / z3 back ends; dual-mode harnesses give native ASan replay of counterexamples")],
    checks=checks,
    notes=D.NOTES,
    not_applicable=[dict(property_id=k, reason=v) for k, v in sorted(D.NOT_APPLICABLE.items())])
json.dump(m, open(os.path.join(HERE, "MANIFEST.json"), "w"), indent=1, ensure_ascii=False)
try:
    import jsonschema
except ImportError:
    sys.path.insert(0, [p for p in __import__("glob").glob("/opt/veriftools/pyvenv/lib/python3*/site-packages")][0]); import jsonschema
jsonschema.validate(m, json.load(open("/root/.vp/MANIFEST.schema.json")))
props = [json.loads(l)["id"] for l in open(os.path.join(HERE, "properties.jsonl"))]
missing = [p for p in props if p not in D.CHECKS and p not in D.NOT_APPLICABLE]
dup = [p for p in props if p in D.CHECKS and p in D.NOT_APPLICABLE]
assert not missing and not dup, (missing, dup)
print("MANIFEST.json ok: %d checks, %d not_applicable" % (len(checks), len(D.NOT_APPLICABLE)))
