NOTES = ("All checks go through ./check <ID>: real sources of /repo's working tree are compiled by goto-cc on every run, "
         "contracts (contracts/*.h, in-harness loop contracts, loops/*.json) are attached by goto-instrument --dfcc, obligations are "
         "decided by cbmc (SAT, cvc5 or z3). Exit 0 all discharged; 1 VIOLATION (failed obligation, natively replayed where the "
         "harness is dual-mode); 2 undecided/infrastructure (never a violation). See DESIGN.md.")
TODO = "contracts for this property are not built yet in this revision (see DESIGN.md section 5 for the plan); not claimed"
CHECKS = {
 "C20": dict(category="proof", design_ref="DESIGN.md section 5, C20",
   technique="CBMC function contract (dfcc) on btokPwdTransition + inductive loop invariant over an unbounded event loop",
   text="The one-step contract of btokPwdTransition (frame, rejected-event-keeps-state, every single-step rule) is discharged for all reachable states x all event encodings, and the history rules (three wrong PINs, CAN before the last attempt, PUK-only unblocking, ten wrong PUKs terminal, deactivation, most-recent status) are proved as an inductive invariant of an unbounded event loop around the real function: complete for every finite history.",
   note="Trusted: CBMC 6.11; rewrite rule R1 (enum bit-field pre-decrement, front-end crash workaround, must-fire); the monitor's reading of the rules (stated in evidence.assumptions)."),
}
NOT_APPLICABLE = {
 "C01": TODO, "C02": TODO, "C03": TODO, "C04": TODO, "C05": TODO, "C07": TODO, "C08": TODO, "C09": TODO,
 "C10": TODO, "C11": TODO, "C12": TODO, "C14": TODO, "C15": TODO, "C16": TODO, "C17": TODO, "C19": TODO,
 "C06": "EC group law / scalar multiplication: algebraic identities over GF(p)/GF(2^m) through function-pointer field objects; every query contains modular inversion/multiplication facts no installed back end decides (measured: N>=2 limb products time out); exhaustive small curves are enumeration, not contracts",
 "C13": "bels threshold recovery is CRT over GF(2)[x] with extended GCD; no quantifier-free or SMT-decidable contract states 'any t shares recover the secret'",
 "C18": "quantifier is over thread schedules; CBMC's contract instrumentation (--dfcc) is sequential and mtCallOnce/mtAtomic* are compiler intrinsics; bounded thread exploration would be model checking, a different family",
}
