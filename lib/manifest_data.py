NOTES = ("All checks go through ./check <ID>: real sources of /repo's working tree are compiled by goto-cc on every run, "
         "contracts (contracts/*.h, in-harness loop contracts, loops/*.json) are attached by goto-instrument --dfcc, obligations are "
         "decided by cbmc (SAT, cvc5 or z3). Exit 0 all discharged; 1 VIOLATION (failed obligation, natively replayed where the "
         "harness is dual-mode); 2 undecided/infrastructure (never a violation). See DESIGN.md.")
TODO = "contracts for this property are not built yet in this revision (see DESIGN.md section 5 for the plan); not claimed"
CHECKS = {
 "C03": dict(category="other", design_ref="DESIGN.md section 5, C03",
   technique="CBMC contracts on the real counter/formatting helpers (complete, SAT) and on bash-f against the standard's 24-round algorithm (cvc5/z3), brng.c/botp.c/bash_f64.c included textually for their static functions",
   text="Partial. Complete (all inputs) for brngBlockInc/Neg/Xor2 (256-bit counter incl. the wrap of all 256 bits, exact 32-octet object), botpCtrNext, botpTimeToCtr, memory safety of botpDT; bash-f: six rounds of the file's round macro + all 24 round constants against STB 34.101.77 in the quick tier, the full 24-round permutation for all 2^1536 states in the thorough tier (cvc5). The dynamic-truncation value of botpDT, sponge/automaton buffering, generator recurrences and OCRA parsing are not decided (native search stands in where listed).",
   note="Not covered: bash hash/prg buffering and padding, brng CTR/HMAC recurrences, botp HOTP/TOTP/OCRA protocol level, non-64-bit bash-f variants."),
 "C12": dict(category="other", design_ref="DESIGN.md section 5, C12",
   technique="CBMC contract on the loop-free date validators (all inputs, SAT / z3)",
   text="Partial: the YYMMDD / (y,m,d) date validators are proved equal to the Gregorian rule plus 'six decimal digits' for every input (complete). The parameter, key, primality and irreducibility validators named by the property are NOT decided by this check: their verdicts are number theory (modular exponentiation, polynomial arithmetic) outside every installed back end; they are listed under not_covered in the evidence.",
   note="Only the date conjunct of C12 is decided. A defect in bign/g12s/stb99/dstu/pfok/bels validators or in pri.c/pp irreducibility would not be noticed by this check."),
 "C08": dict(category="other", design_ref="DESIGN.md section 5, C08",
   technique="CBMC contracts over exactly-sized symbolic-length inputs: totality/bounds postconditions, decode->encode and encode->decode lemma harnesses on the real der.c (included textually for its static T/L codecs)",
   text="For every DER decoder of der.c and ALL inputs of length 0..CMAX (count symbolic, contents symbolic): no access outside the input or the probed output size, result SIZE_MAX or <= count, accepted input re-encodes to the accepted octets, encoders are inverted by decoders. The T and L codecs read at most 13 octets, so their groups are complete (Pc); the typed decoders are bounded by CMAX (10..14 octets). OID decimal round-trip obligations are attempted only (native search stands in).",
   note="Bounded in the input length (stated per group); oid.c/apdu/hex/b64/dec and the bpki/CVC/bign containers are not yet under contract. Trusted: CBMC's memmove/strchr/strlen models."),
 "C14": dict(category="other", design_ref="DESIGN.md section 5, C14",
   technique="relational contracts: SAFE==FAST on equal symbolic inputs; branch-trace self-composition via goto-instrument --branch hook (two runs, independent values, equal lengths)",
   text="For every SAFE/FAST pair covered: equality of results on all values for concrete operand lengths (B(N)), and equality of the branch-decision sequence of the SAFE edition on two independent symbolic value sets (self-composition over the goto program, NDEBUG build). A negative control (FAST wwCmp must fail) runs on every invocation. Counterexamples are replayed natively on gcc -O1 machine code through -fsanitize-coverage=trace-pc.",
   note="C semantics, not -O2/-O3 machine code (stated as unchecked assumption); operand lengths bounded (1,2,4 words); belt/bash verification entry points are not yet under this obligation."),
 "C05": dict(category="other", design_ref="DESIGN.md section 5, C05",
   technique="CBMC function + loop contracts (dfcc) for unbounded safety/frame/flag-range; bounded value contracts against double-width reference arithmetic; SMT-decided SAFE==FAST equivalence for reductions",
   text="Mixed, stated per obligation group in the evidence: P (unbounded n, loop contracts) for memory safety inside exactly-sized arrays, frame, termination and carry/borrow/flag range of the additive zz layer; Pc (complete over all 2^W inputs) for the word-level helpers; B(N) value-exactness of zz_add/zz_mod/ww/mem functions for operand lengths up to 4 words / 19 octets under every documented aliasing and for both editions; relational SAFE==FAST for Montgomery reduction (n=1, cvc5/z3). Multiplicative value facts beyond one limb are outside every installed back end and are listed as not covered; native differential search stands in for them and is labelled as such.",
   note="Not proof of value-exactness for all lengths: the bound is stated per group. Trusted: CBMC 6.11, cvc5/z3, the five pointer-predicate shims, harness/ref.h (double-width reference arithmetic)."),
 "C20": dict(category="proof", design_ref="DESIGN.md section 5, C20",
   technique="CBMC function contract (dfcc) on btokPwdTransition + inductive loop invariant over an unbounded event loop",
   text="The one-step contract of btokPwdTransition (frame, rejected-event-keeps-state, every single-step rule) is discharged for all reachable states x all event encodings, and the history rules (three wrong PINs, CAN before the last attempt, PUK-only unblocking, ten wrong PUKs terminal, deactivation, most-recent status) are proved as an inductive invariant of an unbounded event loop around the real function: complete for every finite history.",
   note="Trusted: CBMC 6.11; rewrite rule R1 (enum bit-field pre-decrement, front-end crash workaround, must-fire); the monitor's reading of the rules (stated in evidence.assumptions)."),
}
NOT_APPLICABLE = {
 "C01": TODO, "C02": TODO,  "C04": TODO, "C07": TODO, "C09": TODO,
 "C10": TODO, "C11": TODO,  "C15": TODO, "C16": TODO, "C17": TODO, "C19": TODO,
 "C06": "EC group law / scalar multiplication: algebraic identities over GF(p)/GF(2^m) through function-pointer field objects; every query contains modular inversion/multiplication facts no installed back end decides (measured: N>=2 limb products time out); exhaustive small curves are enumeration, not contracts",
 "C13": "bels threshold recovery is CRT over GF(2)[x] with extended GCD; no quantifier-free or SMT-decidable contract states 'any t shares recover the secret'",
 "C18": "quantifier is over thread schedules; CBMC's contract instrumentation (--dfcc) is sequential and mtCallOnce/mtAtomic* are compiler intrinsics; bounded thread exploration would be model checking, a different family",
}
