#!/usr/bin/env python3
"""setup: nothing is built ahead of time (every check rebuilds from /repo); verify the tools."""
import shutil, subprocess, sys
ok = True
for t in ("goto-cc", "goto-instrument", "cbmc", "cvc5", "z3", "gcc", "python3"):
    p = shutil.which(t)
    print("%-16s %s" % (t, p or "MISSING"))
    ok = ok and bool(p)
print(subprocess.run(["cbmc", "--version"], capture_output=True, text=True).stdout.strip())
sys.exit(0 if ok else 1)
