#!/bin/bash
# tools/confirm_seeded.sh <PID> <m> : in the scratch worktree /tmp/wt/<PID> (at /repo's HEAD) confirm that the seeded change compiles,
# passes the existing test suite, and that its demonstration fails with the change and passes without it
pid=$1; m=$2; wt=/tmp/wt/$pid; out=/tmp/wt/out/$pid/$m; log=$out/confirm.log
git -C $wt checkout -q -- . ; git -C $wt checkout -q --detach $(git -C /repo rev-parse HEAD)
rm -rf $wt/_b; : > $log
build() { cmake -G Ninja -S $wt -B $wt/_b -DCMAKE_BUILD_TYPE=Release >>$log 2>&1 && cmake --build $wt/_b >>$log 2>&1; }
demo() { gcc -O1 -I$wt/include -I$wt/src $out/demo.c $wt/_b/src/libbee2_static.a -o $out/demo.bin -lpthread -ldl -lm >>$log 2>&1 && (cd $out && timeout 600 ./demo.bin >>$log 2>&1); echo $?; }
git -C $wt apply $out/patch.diff >>$log 2>&1 || { echo "CONFIRM $pid $m patch-does-not-apply"; exit 0; }
build || { echo "CONFIRM $pid $m build-failed-with-change"; git -C $wt checkout -q -- .; exit 0; }
tests=$(ctest --test-dir $wt/_b --timeout 900 2>&1 | grep -c "100% tests passed"); sub=$($wt/_b/test/testbee2 2>/dev/null | grep -c "OK")
with=$(demo)
git -C $wt checkout -q -- .
build; without=$(demo)
rm -rf $wt/_b $out/demo.bin
echo "CONFIRM $pid $m tests_pass=$tests subtests_ok=$sub demo_with_change=$with demo_without=$without"
