#!/bin/bash
# tools/seed_batch.sh "<PID> <m> [<check-pid>]" ...  -- run checks from a copy of /verif against scratch worktrees with a seeded patch
rm -rf /tmp/vcopy; rsync -a --exclude .work --exclude replay-out --exclude .git /verif/ /tmp/vcopy/
for item in "$@"; do
  set -- $item; pid=$1; m=$2; cpid=${3:-$1}
  wt=/tmp/wt/$pid
  git -C $wt checkout -q -- . ; git -C $wt checkout -q --detach $(git -C /repo rev-parse HEAD) 2>/dev/null
  if ! git -C $wt apply /tmp/wt/out/$pid/$m/patch.diff; then echo "RESULT $pid $m check=$cpid patch-does-not-apply"; continue; fi
  ( cd /tmp/vcopy && VERIF_REPO=$wt VERIF_JOBS=8 timeout 3000 ./check $cpid > /tmp/p1/seedlog_${pid}_${m}_$cpid.txt 2>&1; echo "RESULT $pid $m check=$cpid rc=$? violations=$(grep -c '^VIOLATION' /tmp/p1/seedlog_${pid}_${m}_$cpid.txt)" )
  git -C $wt checkout -q -- .
done
