#!/bin/bash
# tools/try_seeded.sh <PID> <patch.diff> [extra ./check args]  -- apply a seeded change to /repo, run the check, undo
pid=$1; patch=$2; shift 2
cd /repo || exit 9
git diff --quiet || { echo "/repo is dirty"; exit 9; }
git apply "$patch" || { echo "patch does not apply"; exit 9; }
cd /verif && ./check "$pid" "$@" > /tmp/p1/seed_$pid.log 2>&1; rc=$?
git -C /repo checkout -- .
git -C /verif checkout -- evidence 2>/dev/null
echo "rc=$rc"; grep -c "^VIOLATION" /tmp/p1/seed_$pid.log; grep "^VIOLATION" -A1 /tmp/p1/seed_$pid.log | head -6 | cut -c1-220
