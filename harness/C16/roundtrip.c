/* C16 companion (level N, NOT proof): bign96, g12s (8 sets), dstu (10 curves, base point generated), pfok on the real
   stack: generated pair validates, produced signature verifies, single-bit alterations of signature / key / hash
   are rejected (alterations that leave the reduced hash unchanged are not counted), out-of-range signature
   components are rejected, DSTU compression is inverted by recovery, both pfok parties derive the same key. */
#include "verif.h"
#include "bee2/crypto/bign96.h"
#include "bee2/crypto/bign.h"
#include "bee2/crypto/g12s.h"
#include "bee2/crypto/dstu.h"
#include "bee2/crypto/pfok.h"
#include "bee2/core/err.h"
#include "bee2/core/mem.h"
#include "bee2/core/util.h"

#ifdef VERIF_NATIVE
typedef struct { const octet* t; size_t len, pos; } tape_t;
static void tape_rng(void* buf, size_t count, void* st) { tape_t* t = (tape_t*)st; size_t i; for (i = 0; i < count; ++i) ((octet*)buf)[i] = t->t[t->pos++ % t->len]; }
/* non-periodic generator seeded from the tape (rejection loops of point generation must terminate) */
static void stream_rng(void* buf, size_t count, void* st)
{
	unsigned long long* x = (unsigned long long*)st; size_t i;
	for (i = 0; i < count; ++i) { *x ^= *x << 13; *x ^= *x >> 7; *x ^= *x << 17; ((octet*)buf)[i] = (octet)(*x >> 32); }
}
static const char* G12S[8] = { "1.2.643.2.2.35.0", "1.2.643.2.2.35.1", "1.2.643.2.2.35.2", "1.2.643.2.2.35.3", "1.2.643.2.9.1.8.1",
	"1.2.643.7.1.2.1.2.0", "1.2.643.7.1.2.1.2.1", "1.2.643.7.1.2.1.2.2" };
static const char* PFOK[4] = { "test", "1.2.112.0.2.0.1176.2.3.3.2", "1.2.112.0.2.0.1176.2.3.6.2", "1.2.112.0.2.0.1176.2.3.10.2" };
/* big-endian compare of mo-octet strings */
static int becmp(const octet* a, const octet* b, size_t n) { return memcmp(a, b, n); }
static int le_cmp(const octet* a, const octet* b, size_t n) { while (n--) if (a[n] != b[n]) return a[n] < b[n] ? -1 : 1; return 0; }
#endif

void h_bign96(void)
{
	V_IN_ARR(octet, tapeb, 96); V_IN_ARR(octet, hash, 24); V_IN(unsigned, flip);
	V_TWEAK(tapeb, { tapeb[23] &= 0x7F; tapeb[47] &= 0x7F; tapeb[71] &= 0x7F; tapeb[0] |= 1; tapeb[24] |= 1; tapeb[48] |= 1; });
	V_NATIVE_ONLY({
		bign_params P[1]; octet d[24], Q[48], sig[34], sig2[34], x[48], oid[16]; size_t oid_len = sizeof(oid); tape_t tp; octet bit = (octet)(1 << (flip % 8));
		V_ASSERT(bign96ParamsStd(P, "1.2.112.0.2.0.34.101.45.3.0") == ERR_OK && bign96ParamsVal(P) == ERR_OK, "bign96 standard parameters validate");
		V_ASSERT(bignOidToDER(oid, &oid_len, "1.2.112.0.2.0.34.101.31.81") == ERR_OK, "oid");
		V_ASSUME(le_cmp(tapeb, P->q, 24) < 0 && le_cmp(tapeb + 24, P->q, 24) < 0);
		if ((flip >> 12) % 4 == 0) memset(hash, 0xFF, 24);
		if ((flip >> 12) % 4 == 1) memcpy(hash, P->q, 24);
		tp.t = tapeb; tp.len = sizeof(tapeb); tp.pos = 0;
		V_ASSERT(bign96KeypairGen(d, Q, P, tape_rng, &tp) == ERR_OK && memcmp(d, tapeb, 24) == 0, "bign96KeypairGen takes the first admissible block");
		V_ASSERT(bign96KeypairVal(P, d, Q) == ERR_OK && bign96PubkeyVal(P, Q) == ERR_OK, "generated pair validates");
		V_ASSERT(bign96PubkeyCalc(x, P, d) == ERR_OK && memcmp(x, Q, 48) == 0, "bign96PubkeyCalc == generated public key");
		V_ASSERT(bign96Sign(sig, P, oid, oid_len, hash, d, tape_rng, &tp) == ERR_OK, "bign96Sign");
		V_ASSERT(bign96Verify(P, oid, oid_len, hash, sig, Q) == ERR_OK, "a produced signature verifies");
		V_ASSERT(bign96Sign2(sig2, P, oid, oid_len, hash, d, 0, 0) == ERR_OK && bign96Verify(P, oid, oid_len, hash, sig2, Q) == ERR_OK, "a deterministic signature verifies");
		memcpy(x, sig, 34); x[(flip / 8) % 34] ^= bit; V_ASSERT(bign96Verify(P, oid, oid_len, hash, x, Q) != ERR_OK, "altered signature rejected");
		memcpy(x, hash, 24); x[(flip / 8) % 24] ^= bit; V_ASSERT(bign96Verify(P, oid, oid_len, x, sig, Q) != ERR_OK, "altered hash rejected");
		memcpy(x, Q, 48); x[(flip / 8) % 48] ^= bit; V_ASSERT(bign96Verify(P, oid, oid_len, hash, sig, x) != ERR_OK, "altered public key rejected");
		V_ASSERT(bign96KeypairVal(P, P->q, Q) != ERR_OK && bign96PubkeyCalc(x, P, P->q) == ERR_BAD_PRIVKEY, "d = q rejected");
	})
	(void)flip;
	V_CANARY("bign96");
}

void h_g12s(void)
{
	V_IN_ARR(octet, tapeb, 192); V_IN_ARR(octet, hash, 64); V_IN(unsigned, sel); V_IN(unsigned, flip);
	V_NATIVE_ONLY({
		g12s_params P[1]; octet d[64], Q[128], sig[128], x[128], qbe[64]; tape_t tp; size_t mo, no, i; octet bit = (octet)(1 << (flip % 8)); err_t e;
		V_ASSERT(g12sParamsStd(P, G12S[sel % 8]) == ERR_OK, "g12s standard parameters load");
		if ((sel >> 8) % 64 == 0) V_ASSERT(g12sParamsVal(P) == ERR_OK, "g12s standard parameters validate");
		mo = P->l / 8; no = memNonZeroSize(P->p, sizeof(P->p));
		for (i = 0; i < mo; ++i) qbe[i] = P->q[mo - 1 - i];
		if ((flip >> 12) % 4 == 0) memset(hash, 0, mo);
		if ((flip >> 12) % 4 == 1) memset(hash, 0xFF, mo);
		if ((flip >> 12) % 4 == 2) memcpy(hash, qbe, mo);
		tp.t = tapeb; tp.len = sizeof(tapeb); tp.pos = 0;
		e = g12sKeypairGen(d, Q, P, tape_rng, &tp);
		V_ASSUME(e == ERR_OK);
		V_ASSERT(le_cmp(d, P->q, mo) < 0 && !memIsZero(d, mo), "generated private key in [1, q - 1]");
		e = g12sSign(sig, P, hash, d, tape_rng, &tp);
		V_ASSUME(e == ERR_OK);
		V_ASSERT(g12sVerify(P, hash, sig, Q) == ERR_OK, "a produced signature verifies");
		V_ASSERT(becmp(sig, qbe, mo) < 0 && becmp(sig + mo, qbe, mo) < 0 && !memIsZero(sig, mo) && !memIsZero(sig + mo, mo), "0 < r, s < q");
		memcpy(x, sig, 2 * mo); x[(flip / 8) % (2 * mo)] ^= bit; V_ASSERT(g12sVerify(P, hash, x, Q) != ERR_OK, "altered signature rejected");
		memcpy(x, Q, 2 * no); x[(flip / 8) % (2 * no)] ^= bit; V_ASSERT(g12sVerify(P, hash, sig, x) != ERR_OK, "altered public key rejected");
		/* the hash is reduced modulo q, zero becomes one: alterations that keep the reduced value are not counted */
		if ((flip >> 12) % 4 == 3) { memcpy(x, hash, mo); x[(flip / 8) % mo] ^= bit;
			if (becmp(hash, qbe, mo) < 0 && becmp(x, qbe, mo) < 0 && !(memIsZero(hash, mo - 1) && hash[mo - 1] <= 1 && memIsZero(x, mo - 1) && x[mo - 1] <= 1))
				V_ASSERT(g12sVerify(P, x, sig, Q) != ERR_OK, "altered hash (different residue) rejected"); }
		/* r + q / s + q: out of range */
		memset(x, 0, 2 * mo); V_ASSERT(g12sVerify(P, hash, x, Q) == ERR_BAD_SIG, "r = s = 0 rejected");
		memcpy(x, sig, 2 * mo); memcpy(x, qbe, mo); V_ASSERT(g12sVerify(P, hash, x, Q) == ERR_BAD_SIG, "r = q rejected");
		memcpy(x, sig, 2 * mo); memcpy(x + mo, qbe, mo); V_ASSERT(g12sVerify(P, hash, x, Q) == ERR_BAD_SIG, "s = q rejected");
		V_ASSERT(g12sSign(x, P, hash, P->q, tape_rng, &tp) == ERR_BAD_PRIVKEY, "d = q rejected");
	})
	(void)sel; (void)flip;
	V_CANARY("g12s");
}

void h_dstu(void)
{
	V_IN_ARR(octet, tapeb, 256); V_IN_ARR(octet, hash, 64); V_IN(unsigned, sel); V_IN(unsigned, flip);
	V_NATIVE_ONLY({
		dstu_params P[1]; octet d[DSTU_SIZE], Q[2 * DSTU_SIZE], sig[2 * DSTU_SIZE], x[2 * DSTU_SIZE], pt[2 * DSTU_SIZE]; unsigned long long tp; char name[40]; size_t no, ono, ld, hl; err_t e; octet bit = (octet)(1 << (flip % 8));
		sprintf(name, "1.2.804.2.1.1.1.1.3.1.1.1.2.%u", sel % 10);
		V_ASSERT(dstuParamsStd(P, name) == ERR_OK, "dstu standard curve loads");
		memcpy(&tp, tapeb, 8); tp |= 1;
		e = dstuPointGen(P->P, P, stream_rng, &tp);
		V_ASSUME(e == ERR_OK);
		if ((sel >> 8) % 16 == 0) V_ASSERT(dstuParamsVal(P) == ERR_OK, "parameters with the generated base point validate");
		V_ASSERT(dstuPointVal(P, P->P) == ERR_OK, "generated base point validates");
		no = O_OF_B(P->p[0]); ono = memNonZeroSize(P->n, sizeof(P->n));
		V_ASSERT(dstuPointCompress(x, P, P->P) == ERR_OK && dstuPointRecover(pt, P, x) == ERR_OK && memcmp(pt, P->P, 2 * no) == 0, "point recovery inverts compression (base point)");
		e = dstuKeypairGen(d, Q, P, stream_rng, &tp);
		V_ASSUME(e == ERR_OK);
		V_ASSERT(dstuPointCompress(x, P, Q) == ERR_OK && dstuPointRecover(pt, P, x) == ERR_OK && memcmp(pt, Q, 2 * no) == 0, "point recovery inverts compression (public key)");
		ld = 16 * ono + 16 * ((flip >> 16) % 4); if (ld > 16 * DSTU_SIZE) ld = 16 * DSTU_SIZE;
		hl = 1 + (flip >> 20) % 64;
		if ((flip >> 12) % 4 == 0) memset(hash, 0, hl);
		if ((flip >> 12) % 4 == 1) memset(hash, 0xFF, hl);
		e = dstuSign(sig, P, ld, hash, hl, d, stream_rng, &tp);
		V_ASSUME(e == ERR_OK);
		V_ASSERT(dstuVerify(P, ld, hash, hl, sig, Q) == ERR_OK, "a produced signature verifies");
		memcpy(x, sig, ld / 8); x[(flip / 8) % (ld / 8)] ^= bit; V_ASSERT(dstuVerify(P, ld, hash, hl, x, Q) != ERR_OK, "altered signature rejected");
		memcpy(x, Q, 2 * no); x[(flip / 8) % (2 * no)] ^= bit; V_ASSERT(dstuVerify(P, ld, hash, hl, sig, x) != ERR_OK, "altered public key rejected");
		V_ASSERT(dstuVerify(P, ld + 1, hash, hl, sig, Q) != ERR_OK && dstuVerify(P, 16 * ono - 16, hash, hl, sig, Q) != ERR_OK, "inadmissible signature lengths rejected");
		memset(x, 0, ld / 8); V_ASSERT(dstuVerify(P, ld, hash, hl, x, Q) == ERR_BAD_SIG, "r = s = 0 rejected");
		memcpy(x, sig, ld / 8); memcpy(x, P->n, ono); V_ASSERT(dstuVerify(P, ld, hash, hl, x, Q) == ERR_BAD_SIG, "r = n rejected");
		memcpy(x, sig, ld / 8); memcpy(x + ld / 16, P->n, ono); V_ASSERT(dstuVerify(P, ld, hash, hl, x, Q) == ERR_BAD_SIG, "s = n rejected");
	})
	(void)sel; (void)flip;
	V_CANARY("dstu");
}

void h_pfok(void)
{
	V_IN_ARR(octet, tapeb, 256); V_IN(unsigned, sel);
	V_NATIVE_ONLY({
		pfok_params P[1]; static octet xa[64], xb[64], ua[64], ub[64], ya[368], yb[368], va[368], vb[368], k1[64], k2[64], t[368]; tape_t tp; size_t mo, no, ko;
		V_ASSERT(pfokParamsStd(P, 0, PFOK[(sel % 16) ? 0 : 1 + (sel / 16) % 3]) == ERR_OK, "pfok standard parameters load");
		mo = O_OF_B(P->r); no = O_OF_B(P->l); ko = O_OF_B(P->n);
		tp.t = tapeb; tp.len = sizeof(tapeb); tp.pos = 0;
		V_ASSERT(pfokKeypairGen(xa, ya, P, tape_rng, &tp) == ERR_OK && pfokKeypairGen(xb, yb, P, tape_rng, &tp) == ERR_OK &&
			pfokKeypairGen(ua, va, P, tape_rng, &tp) == ERR_OK && pfokKeypairGen(ub, vb, P, tape_rng, &tp) == ERR_OK, "pfokKeypairGen");
		V_ASSERT(pfokPubkeyVal(P, ya) == ERR_OK && pfokPubkeyVal(P, yb) == ERR_OK, "generated public keys validate");
		V_ASSERT(pfokPubkeyCalc(t, P, xa) == ERR_OK && memcmp(t, ya, no) == 0, "pfokPubkeyCalc == generated public key");
		V_ASSERT(pfokDH(k1, P, xa, yb) == ERR_OK && pfokDH(k2, P, xb, ya) == ERR_OK && memcmp(k1, k2, ko) == 0, "pfok DH: both parties derive the same key");
		V_ASSERT(pfokMTI(k1, P, xa, ua, yb, vb) == ERR_OK && pfokMTI(k2, P, xb, ub, ya, va) == ERR_OK && memcmp(k1, k2, ko) == 0, "pfok MTI: both parties derive the same key");
		V_ASSERT(pfokDH(k1, P, xa, P->p) == ERR_BAD_PUBKEY && pfokPubkeyVal(P, P->p) == ERR_BAD_PUBKEY, "public key = p rejected");
		memset(t, 0, no); V_ASSERT(pfokDH(k1, P, xa, t) == ERR_BAD_PUBKEY && pfokMTI(k1, P, xa, ua, t, vb) == ERR_BAD_PUBKEY && pfokMTI(k1, P, xa, ua, yb, t) == ERR_BAD_PUBKEY, "zero public key rejected");
		if (P->r % 8) { memcpy(t, xa, mo); t[mo - 1] |= 0x80; V_ASSERT(pfokDH(k1, P, t, yb) == ERR_BAD_PRIVKEY && pfokPubkeyCalc(va, P, t) == ERR_BAD_PRIVKEY, "private key longer than r bits rejected"); }
	})
	(void)sel;
	V_CANARY("pfok");
}
