/* C16 flow contracts for bign96 (l = 96: 24-octet field, 10-octet s0, scalar s0 || 00 00 80 of 13 octets); same method as
   harness/C02/flow.c.
   C02 flow contracts: the real bodies of the high-level bign functions against the contracts of the layers
   below them (stubs/bign_env.c).  What is decided: every guard on the way to ERR_OK (ranges of d, k, s1, the
   hash reduced modulo q, import checks of the public key), the identity of the modulus / curve / base point
   handed to each callee, the scalars and points handed to the curve arithmetic, the belt-hash transcript,
   the value of s1, the exact size of the state (every callee stack must fit), and that the state is closed
   exactly once on every path.  What is assumed: the contracts of the replaced callees (see the plan). */
#include "verif.h"
#include "harness/C02/env.h"
#include "bee2/core/err.h"
#include "bee2/core/util.h"
#include "crypto/bign/bign_lcl.h"
#include "bee2/crypto/bign96.h"
#include "harness/ref.h"

#define OIDMAX 12
static void ld(word* w, const octet* o, size_t no) { size_t i; for (i = 0; i < no / O_PER_W; ++i) { size_t j; w[i] = 0; for (j = 0; j < O_PER_W; ++j) w[i] |= (word)o[i * O_PER_W + j] << (8 * j); } }
static int eqw(const word* a, const word* b, size_t n) { size_t i; int r = 1; for (i = 0; i < n; ++i) r &= a[i] == b[i]; return r; }
static int eqo(const octet* a, const octet* b, size_t n) { size_t i; int r = 1; for (i = 0; i < n; ++i) r &= a[i] == b[i]; return r; }
/* c <- (a + b) mod q, c <- (a - b) mod q for a, b < q */
static void addq(word* c, const word* a, const word* b, const word* q) { word t[NW]; word cy = r_add(c, a, b, NW, 0); if (cy || r_cmp(c, q, NW) >= 0) { r_sub(t, c, q, NW, 0); r_copy(c, t, NW); } }
static void subq(word* c, const word* a, const word* b, const word* q) { word t[NW]; if (r_sub(c, a, b, NW, 0)) { r_add(t, c, q, NW, 0); r_copy(c, t, NW); } }
static void redq(word* h, const word* q) { word t[NW]; if (r_cmp(h, q, NW) >= 0) { r_sub(t, h, q, NW, 0); r_copy(h, t, NW); } }


#define S0O 10                       /* octets of s0 */
#define S0W W_OF_O(13)               /* words of the scalar s0 || 00 00 80 */
#define PROLOGUE0 \
	V_IN(bign_params, params); word q[NW]; int operable; \
	V_ASSUME(params.l == 96); \
	operable = 1; ld(q, params.q, NO)
#define PROLOGUE \
	PROLOGUE0; V_IN_ARR(octet, oid, OIDMAX); V_IN(size_t, oid_len); V_IN_ARR(octet, hash, NO); \
	V_ASSUME(oid_len <= OIDMAX)
#define STATE_RULES(code) \
	V_ASSERT(!E.created || E.closed, "the state is closed on every path"); \
	V_ASSERT(!E.close_bad, "the state is closed once")
#define TRANSCRIPT(last_kind, last_ptr) \
	(E.nh == 5 && E.h_kind[0] == H_START && \
	 E.h_kind[1] == H_STEPH && E.h_ptr[1] == (const void*)oid && E.h_len[1] == oid_len && \
	 E.h_kind[2] == H_STEPH && E.h_len[2] == NO && E.nto >= 1 && eqo(E.h_val[2], E.to_val[0], NO) && \
	 E.h_kind[3] == H_STEPH && E.h_ptr[3] == (const void*)hash && E.h_len[3] == NO && \
	 E.h_kind[4] == (last_kind) && E.h_ptr[4] == (const void*)(last_ptr) && E.h_len[4] == S0O)
#define EXPORTED(out, src) \
	(E.nto == 2 && eqw(E.to_in[0], (src), NW) && eqw(E.to_in[1], (src) + NW, NW) && \
	 eqo((out), E.to_val[0], NO) && eqo((out) + NO, E.to_val[1], NO))
/* the scalar s0 || 00 00 80 as words */
static void ld_s0(word* w, const octet* sig) { octet t[S0W * O_PER_W]; size_t i; for (i = 0; i < sizeof(t); ++i) t[i] = i < S0O ? sig[i] : 0; t[12] = 0x80; ld(w, t, sizeof(t)); }

void h_verify(void)
{
	PROLOGUE;
	V_IN_ARR(octet, sig, 34); V_IN_ARR(octet, pubkey, 2 * NO);
	word s1[NW], H[NW], s0[S0W]; err_t code; int fav;
	code = bign96Verify(&params, oid, oid_len, hash, sig, pubkey);
	STATE_RULES(code);
	ld(s1, sig + S0O, NO); ld(H, hash, NO); ld_s0(s0, sig);
	fav = operable && E.noid == 1 && E.oid_ret != SIZE_MAX && E.created && E.start_ret == 1 &&
		E.nfrom == 2 && E.from_ret[0] && E.from_ret[1] && r_cmp(s1, q, NW) < 0 &&
		E.naddmul == 1 && E.am_ret && E.nh == 5 && E.h_ret;
	V_ASSERT(code == ERR_OK ? fav : 1, "bign96Verify accepts only if every check of the verification equation passed (incl. s1 < q)");
	V_ASSERT(code != ERR_OK ? !fav : 1, "bign96Verify accepts whenever every check passed");
	if (code == ERR_OK)
	{
		V_ASSERT(E.from_src[0] == pubkey && E.from_src[1] == pubkey + NO, "public key coordinates imported from pubkey, pubkey + 24");
		redq(H, q);
		V_ASSERT(E.am_ec == (const void*)E.ec && E.am_pt[0] == E.base && eqw(E.am_ptval[0], E.base_val, 2 * NW), "first point of the sum is the base point");
		V_ASSERT(E.nam == 1 && E.am_kind[0] == 1 && E.amod_mod[0] == E.order && eqw(E.amod_a[0], s1, NW) && eqw(E.amod_b[0], H, NW) &&
			E.am_m[0] == NW && eqw(E.am_d[0], E.amod_out[0], NW), "first scalar is zzAddMod(s1, H mod q, q)");
		V_ASSERT(eqw(E.am_ptval[1], E.from_val[0], NW) && eqw(E.am_ptval[1] + NW, E.from_val[1], NW), "second point of the sum is the imported public key");
		V_ASSERT(E.am_m[1] == S0W && eqw(E.am_d[1], s0, S0W), "second scalar is s0 || 00 00 80");
		V_ASSERT(E.nto == 1 && eqw(E.to_in[0], E.am_out, NW), "the x-coordinate of R is exported");
		V_ASSERT(TRANSCRIPT(H_V2, sig), "belt-hash transcript: oid || <R> || H, compared with s0");
	}
	V_CANARY("flow96 verify");
}

void h_sign(void)
{
	PROLOGUE;
	V_IN_ARR(octet, privkey, NO); V_IN(int, have_rng); V_IN(size_t, rng_state);
	V_BUF(octet, sig, 34);
	word d[NW], H[NW], s0[S0W], u[NW]; err_t code; int fav; size_t j;
	gen_i rng = have_rng ? rng_stub : 0;
	code = bign96Sign(sig, &params, oid, oid_len, hash, privkey, rng, (void*)rng_state);
	STATE_RULES(code);
	ld(d, privkey, NO); ld(H, hash, NO);
	fav = operable && E.noid == 1 && E.oid_ret != SIZE_MAX && rng != 0 && E.created && E.start_ret == 1 &&
		!r_iszero(d, NW) && r_cmp(d, q, NW) < 0 && E.nrand == 1 && E.rand_ret && E.nmul == 1 && E.mul_ret;
	V_ASSERT(code == ERR_OK ? fav : 1, "bign96Sign succeeds only with 0 < d < q, a generator and 0 < k < q");
	V_ASSERT(code != ERR_OK ? !fav : 1, "bign96Sign succeeds whenever its inputs are admissible");
	V_ASSERT(E.nrand == 0 || (E.rand_mod == E.order && E.rand_n == NW && E.rand_rng == rng && E.rand_state == (void*)rng_state),
		"k is drawn modulo q with the caller's generator");
	if (code == ERR_OK)
	{
		V_ASSERT(E.mul_ec == (const void*)E.ec && E.mul_a == E.base && eqw(E.mul_aval, E.base_val, 2 * NW) && E.mul_m == NW && eqw(E.mul_d, E.rand_val, NW), "R = k G");
		V_ASSERT(E.nto == 1 && eqw(E.to_in[0], E.mul_out, NW), "the x-coordinate of R is exported");
		V_ASSERT(TRANSCRIPT(H_G2, sig), "belt-hash transcript: oid || <R> || H, s0 written to sig");
		V_ASSERT(eqo(sig, E.h_out, S0O), "sig[0..10) is the hash output");
		ld_s0(s0, sig);
		V_ASSERT(E.nzmul == 1 && E.zmul_n == S0W && E.zmul_m == NW && eqw(E.zmul_a, s0, S0W) && eqw(E.zmul_b, d, NW), "(s0 || 00 00 80) * d");
		V_ASSERT(E.nzmod == 1 && E.zmod_n == NW + S0W && E.zmod_mod == E.order && eqw(E.zmod_a, E.zmul_out, NW + S0W), "the product reduced modulo q");
		redq(H, q);
		ld(u, sig + S0O, NO);
		V_ASSERT(E.nam == 2 && E.am_kind[0] == -1 && E.am_kind[1] == -1 && E.amod_mod[0] == E.order && E.amod_mod[1] == E.order &&
			eqw(E.amod_a[0], E.rand_val, NW) && eqw(E.amod_b[0], E.zmod_out, NW) &&
			eqw(E.amod_a[1], E.amod_out[0], NW) && eqw(E.amod_b[1], H, NW) && eqw(u, E.amod_out[1], NW),
			"s1 = zzSubMod(zzSubMod(k, s0' d mod q, q), H mod q, q)");
	}
	(void)j;
	V_CANARY("flow96 sign");
}

void h_keypairgen(void)
{
	PROLOGUE0;
	V_IN(int, have_rng); V_IN(size_t, rng_state);
	V_BUF(octet, privkey, NO); V_BUF(octet, pubkey, 2 * NO);
	word d[NW]; err_t code; int fav;
	gen_i rng = have_rng ? rng_stub : 0;
	code = bign96KeypairGen(privkey, pubkey, &params, rng, (void*)rng_state);
	STATE_RULES(code);
	fav = operable && rng != 0 && E.created && E.start_ret == 1 && E.nrand == 1 && E.rand_ret && E.nmul == 1 && E.mul_ret;
	V_ASSERT(code == ERR_OK ? fav : 1, "bign96KeypairGen succeeds only with a generator and 0 < d < q");
	V_ASSERT(code != ERR_OK ? !fav : 1, "bign96KeypairGen succeeds whenever its inputs are admissible");
	V_ASSERT(E.nrand == 0 || (E.rand_mod == E.order && E.rand_n == NW && E.rand_rng == rng && E.rand_state == (void*)rng_state),
		"d is drawn modulo q (the group order) with the caller's generator");
	if (code == ERR_OK)
	{
		ld(d, privkey, NO);
		V_ASSERT(eqw(d, E.rand_val, NW) && !r_iszero(d, NW) && r_cmp(d, q, NW) < 0, "the private key returned is the value drawn, 0 < d < q");
		V_ASSERT(E.mul_ec == (const void*)E.ec && E.mul_a == E.base && eqw(E.mul_aval, E.base_val, 2 * NW) && E.mul_m == NW && eqw(E.mul_d, d, NW), "Q = d G");
		V_ASSERT(EXPORTED(pubkey, E.mul_out), "the public key returned is <Q_x>_2l || <Q_y>_2l");
	}
	V_CANARY("flow keypairgen");
}

void h_keypairval(void)
{
	PROLOGUE0;
	V_IN_ARR(octet, privkey, NO); V_IN_ARR(octet, pubkey, 2 * NO);
	word d[NW]; err_t code; int fav, range;
	code = bign96KeypairVal(&params, privkey, pubkey);
	STATE_RULES(code);
	ld(d, privkey, NO);
	range = !r_iszero(d, NW) && r_cmp(d, q, NW) < 0;
	fav = operable && E.created && E.start_ret == 1 && range && E.nmul == 1 && E.mul_ret && EXPORTED(pubkey, E.mul_out);
	V_ASSERT(code == ERR_OK ? fav : 1, "bign96KeypairVal accepts only 0 < d < q with pubkey == export(d G)");
	V_ASSERT(code != ERR_OK ? !fav : 1, "bign96KeypairVal accepts every pair with 0 < d < q and pubkey == export(d G)");
	V_ASSERT((E.created && E.start_ret == 1 && operable && !range) ? code == ERR_BAD_PRIVKEY : 1, "d = 0 or d >= q is ERR_BAD_PRIVKEY");
	if (E.nmul)
		V_ASSERT(E.mul_ec == (const void*)E.ec && E.mul_a == E.base && eqw(E.mul_aval, E.base_val, 2 * NW) && E.mul_m == NW && eqw(E.mul_d, d, NW), "Q = d G");
	V_CANARY("flow keypairval");
}

void h_pubkeyval(void)
{
	PROLOGUE0;
	V_IN_ARR(octet, pubkey, 2 * NO);
	err_t code; int fav;
	code = bign96PubkeyVal(&params, pubkey);
	STATE_RULES(code);
	fav = operable && E.created && E.start_ret == 1 && E.nfrom == 2 && E.from_ret[0] && E.from_ret[1] && E.nison == 1 && E.ison_ret;
	V_ASSERT(code == ERR_OK ? fav : 1, "bign96PubkeyVal accepts only in-range coordinates of a point on the curve");
	V_ASSERT(code != ERR_OK ? !fav : 1, "bign96PubkeyVal accepts every in-range point on the curve");
	if (E.nfrom >= 1) V_ASSERT(E.from_src[0] == pubkey, "x imported from pubkey");
	if (E.nfrom >= 2) V_ASSERT(E.from_src[1] == pubkey + NO, "y imported from pubkey + no");
	if (E.nison) V_ASSERT(eqw(E.ison_val, E.from_val[0], NW) && eqw(E.ison_val + NW, E.from_val[1], NW), "the curve equation is checked on the imported point");
	V_CANARY("flow pubkeyval");
}

void h_pubkeycalc(void)
{
	PROLOGUE0;
	V_IN_ARR(octet, privkey, NO); V_BUF(octet, pubkey, 2 * NO);
	word d[NW]; err_t code; int fav, range;
	code = bign96PubkeyCalc(pubkey, &params, privkey);
	STATE_RULES(code);
	ld(d, privkey, NO);
	range = !r_iszero(d, NW) && r_cmp(d, q, NW) < 0;
	fav = operable && E.created && E.start_ret == 1 && range && E.nmul == 1 && E.mul_ret;
	V_ASSERT(code == ERR_OK ? fav : 1, "bign96PubkeyCalc succeeds only for 0 < d < q");
	V_ASSERT(code != ERR_OK ? !fav : 1, "bign96PubkeyCalc succeeds for every 0 < d < q");
	if (code == ERR_OK)
	{
		V_ASSERT(E.mul_ec == (const void*)E.ec && E.mul_a == E.base && eqw(E.mul_aval, E.base_val, 2 * NW) && E.mul_m == NW && eqw(E.mul_d, d, NW), "Q = d G");
		V_ASSERT(EXPORTED(pubkey, E.mul_out), "the public key returned is <Q_x>_2l || <Q_y>_2l");
	}
	V_CANARY("flow pubkeycalc");
}

