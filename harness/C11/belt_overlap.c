/* C11 groups overlap.*: high-level belt functions documented as overlap-tolerant give, for
   every placement of dest against src inside one arena (offsets symbolic), the result
   obtained with pairwise disjoint buffers.  Length LEN concrete; key, IV, header and
   contents symbolic.  Block function uninterpreted under CBMC, real natively. */
#include "verif.h"
#include "bee2/core/mem.h"
#include "bee2/core/err.h"
#include "bee2/core/der.h"
#include "bee2/crypto/belt.h"

#ifndef LEN
#define LEN 20
#endif
#define EXTRA 16                       /* KWP: dest is 16 octets longer than src */
#define ARENA (3 * (LEN + EXTRA) + 2)

static int o_eq(const octet* a, const octet* b, size_t n)
{
	size_t i;
	for (i = 0; i < n; ++i) if (a[i] != b[i]) return 0;
	return 1;
}
static void o_copy(octet* d, const octet* s, size_t n) { size_t i; for (i = 0; i < n; ++i) d[i] = s[i]; }

#define PLACE(dlen, slen) \
	V_IN_ARR(octet, ar0, ARENA); V_IN_ARR(octet, key, 32); V_IN_ARR(octet, iv, 16); \
	V_IN(unsigned char, od); V_IN(unsigned char, os); \
	octet AR[ARENA], S[LEN + EXTRA], E[LEN + EXTRA]; \
	err_t e1, e2; \
	V_TWEAK(od, od %= ARENA - (dlen) + 1); V_TWEAK(os, os %= ARENA - (slen) + 1); \
	V_ASSUME(od + (dlen) <= ARENA && os + (slen) <= ARENA); \
	o_copy(AR, ar0, ARENA); o_copy(S, ar0 + os, slen)

#define SAME_LEN(NAME, CALL_A, CALL_D) \
void h_##NAME(void) \
{ \
	PLACE(LEN, LEN); \
	e1 = CALL_A; e2 = CALL_D; \
	V_ASSERT(e1 == e2, #NAME ": same return code with overlapping and with disjoint buffers"); \
	V_ASSERT(e1 != ERR_OK || o_eq(AR + od, E, LEN), #NAME ": overlapping placement == disjoint-buffer result"); \
	V_CANARY(#NAME); \
}
SAME_LEN(ecb_e, beltECBEncr(AR + od, AR + os, LEN, key, 32), beltECBEncr(E, S, LEN, key, 32))
SAME_LEN(ecb_d, beltECBDecr(AR + od, AR + os, LEN, key, 32), beltECBDecr(E, S, LEN, key, 32))
SAME_LEN(cbc_e, beltCBCEncr(AR + od, AR + os, LEN, key, 32, iv), beltCBCEncr(E, S, LEN, key, 32, iv))
SAME_LEN(cbc_d, beltCBCDecr(AR + od, AR + os, LEN, key, 32, iv), beltCBCDecr(E, S, LEN, key, 32, iv))
SAME_LEN(cfb_e, beltCFBEncr(AR + od, AR + os, LEN, key, 32, iv), beltCFBEncr(E, S, LEN, key, 32, iv))
SAME_LEN(cfb_d, beltCFBDecr(AR + od, AR + os, LEN, key, 32, iv), beltCFBDecr(E, S, LEN, key, 32, iv))
SAME_LEN(ctr, beltCTR(AR + od, AR + os, LEN, key, 32, iv), beltCTR(E, S, LEN, key, 32, iv))

/* key wrapping: dest has LEN + 16 octets; with and without a header */
void h_kwp_wrap(void)
{
	PLACE(LEN + 16, LEN);
	V_IN_ARR(octet, hdr, 16);
	e1 = beltKWPWrap(AR + od, AR + os, LEN, hdr, key, 32);
	e2 = beltKWPWrap(E, S, LEN, hdr, key, 32);
	V_ASSERT(e1 == e2, "beltKWPWrap (header): same return code with overlapping and with disjoint buffers");
	V_ASSERT(e1 != ERR_OK || o_eq(AR + od, E, LEN + 16), "beltKWPWrap (header): overlapping placement == disjoint-buffer result");
	o_copy(AR, ar0, ARENA);
	e1 = beltKWPWrap(AR + od, AR + os, LEN, 0, key, 32);
	e2 = beltKWPWrap(E, S, LEN, 0, key, 32);
	V_ASSERT(e1 == e2 && (e1 != ERR_OK || o_eq(AR + od, E, LEN + 16)), "beltKWPWrap (zero header): overlapping placement == disjoint-buffer result");
	V_CANARY("kwp_wrap");
}

/* key expansion in place, DER encoding with the value inside the output */
void h_misc(void)
{
	V_IN_ARR(octet, k0, 32);
	octet K[32], E[32];
	o_copy(K, k0, 32);
	beltKeyExpand(E, k0, 24);
	beltKeyExpand(K, K, 24);
	V_ASSERT(o_eq(K, E, 32), "beltKeyExpand in place == disjoint result");
	{
		V_IN_ARR(octet, v0, 12); V_IN(unsigned char, off);
		octet D1[20], D2[20];
		size_t n1, n2;
		V_TWEAK(off, off %= 9);
		V_ASSUME(off <= 8);
		o_copy(D1 + off, v0, 12);
		n1 = derEnc(D1, 0x04, D1 + off, 12);
		n2 = derEnc(D2, 0x04, v0, 12);
		V_ASSERT(n1 == n2 && n1 == 14 && o_eq(D1, D2, 14), "derEnc with val inside der == disjoint result");
	}
	V_CANARY("misc");
}

/* auxiliary inputs (IV, header, value) lying inside the output region */
void h_aux(void)
{
	V_IN_ARR(octet, ar0, 96); V_IN_ARR(octet, key, 32); V_IN(unsigned char, k);
	octet AR[96], E[64], S[64], aux[16];
	err_t e1, e2;
	V_TWEAK(k, k %= 49);
	V_ASSUME(k <= 48);
	/* beltSDEEncr / beltSDEDecr: iv inside dest (dest == src, 64 octets) */
	o_copy(AR, ar0, 96); o_copy(S, ar0, 64); o_copy(aux, ar0 + k, 16);
	e1 = beltSDEEncr(AR, S, 64, key, 32, AR + k);        /* dest and src disjoint, iv inside dest */
	e2 = beltSDEEncr(E, S, 64, key, 32, aux);
	V_ASSERT(e1 == e2 && (e1 != ERR_OK || o_eq(AR, E, 64)), "beltSDEEncr with iv inside dest == disjoint-buffer result");
	o_copy(AR, ar0, 96);
	e1 = beltSDEDecr(AR, S, 64, key, 32, AR + k);
	e2 = beltSDEDecr(E, S, 64, key, 32, aux);
	V_ASSERT(e1 == e2 && (e1 != ERR_OK || o_eq(AR, E, 64)), "beltSDEDecr with iv inside dest == disjoint-buffer result");
	/* beltKWPUnwrap: header inside dest; token = wrap of 48 octets with that header, so both runs must succeed */
	{
		octet tok[64], T2[64], D1[96], D2[48];
		V_TWEAK(k, k %= 33);
		if (k <= 32)
		{
			o_copy(aux, ar0 + 64, 16);
			if (beltKWPWrap(tok, ar0, 48, aux, key, 32) == ERR_OK)
			{
				o_copy(D1, ar0, 96); o_copy(D1 + k, aux, 16); o_copy(T2, tok, 64);
				e1 = beltKWPUnwrap(D1, tok, 64, D1 + k, key, 32);
				e2 = beltKWPUnwrap(D2, T2, 64, aux, key, 32);
				V_ASSERT(e2 == ERR_OK, "beltKWPUnwrap inverts beltKWPWrap");
				V_ASSERT(e1 == e2 && o_eq(D1, D2, 48), "beltKWPUnwrap with header inside dest == disjoint-buffer result");
			}
		}
	}
	/* derTUINTEnc: val inside der (documented: follows derEnc, buffers may overlap) */
	{
		V_IN_ARR(octet, v0, 10); V_IN(unsigned char, off);
		octet D1[24], D2[24];
		size_t n1, n2;
		V_TWEAK(off, off %= 13);
		V_ASSUME(off <= 12);
		o_copy(D1 + off, v0, 10);
		n1 = derTUINTEnc(D1, 0x02, D1 + off, 10);
		n2 = derTUINTEnc(D2, 0x02, v0, 10);
		V_ASSERT(n1 == n2 && n1 <= 13 && o_eq(D1, D2, n1), "derTUINTEnc with val inside der == disjoint-buffer result");
	}
	/* derTBITEnc: val inside der, every bit length 1..80 (documented: follows derEnc, buffers may overlap) */
	{
		V_IN_ARR(octet, b0, 10); V_IN(unsigned char, boff); V_IN(unsigned char, blen);
		octet D1[24], D2[24];
		size_t n1, n2;
		V_TWEAK(boff, boff %= 13); V_TWEAK(blen, blen = 1 + blen % 80);
		V_ASSUME(boff <= 12 && blen >= 1 && blen <= 80);
		o_copy(D1 + boff, b0, 10);
		n1 = derTBITEnc(D1, 0x03, D1 + boff, blen);
		n2 = derTBITEnc(D2, 0x03, b0, blen);
		V_ASSERT(n1 == n2 && n1 <= 14 && o_eq(D1, D2, n1), "derTBITEnc with val inside der == disjoint-buffer result");
	}
	/* beltKeyExpand: key anywhere around key_ (documented: key and key_ may overlap), lengths 16 and 24 */
	{
		V_IN_ARR(octet, kk, 32); V_IN(unsigned char, ko);
		octet W[32 + 64], EK[32];
		unsigned kl;
		V_TWEAK(ko, ko %= 65);
		V_ASSUME(ko <= 64);
		for (kl = 16; kl <= 24; kl += 8)
			if ((size_t)ko + kl <= sizeof(W))
			{
				o_copy(W, ar0, sizeof(W)); o_copy(W + ko, kk, kl);
				beltKeyExpand(EK, kk, kl);
				beltKeyExpand(W + 32, W + ko, kl);          /* key_ = W + 32, key = W + ko: every relative placement */
				V_ASSERT(o_eq(W + 32, EK, 32), "beltKeyExpand with key overlapping key_ == disjoint-buffer result");
			}
	}
	/* beltDWPWrap / beltCHEWrap: the open data src2 inside dest (only dest and mac must not intersect) */
	{
		V_IN_ARR(octet, iv, 16); V_IN(unsigned char, so);
		octet D1[64], D2[64], M1[8], M2[8], X[40], I2[24];
		V_TWEAK(so, so %= 17);
		V_ASSUME(so <= 16);
		o_copy(X, ar0, 40); o_copy(I2, ar0 + 40, 24);
		o_copy(D1, ar0, 64); o_copy(D1 + so, I2, 24);
		e1 = beltDWPWrap(D1, M1, X, 40, D1 + so, 24, key, 32, iv);
		e2 = beltDWPWrap(D2, M2, X, 40, I2, 24, key, 32, iv);
		V_ASSERT(e1 == e2 && o_eq(D1, D2, 40) && o_eq(M1, M2, 8), "beltDWPWrap with the open data inside dest == disjoint-buffer result");
		o_copy(D1, ar0, 64); o_copy(D1 + so, I2, 24);
		e1 = beltCHEWrap(D1, M1, X, 40, D1 + so, 24, key, 32, iv);
		e2 = beltCHEWrap(D2, M2, X, 40, I2, 24, key, 32, iv);
		V_ASSERT(e1 == e2 && o_eq(D1, D2, 40) && o_eq(M1, M2, 8), "beltCHEWrap with the open data inside dest == disjoint-buffer result");
	}
	V_CANARY("aux");
}
