/* C11 groups overlap.*: high-level belt functions documented as overlap-tolerant give, for
   every placement of dest against src inside one arena (offsets symbolic), the result
   obtained with pairwise disjoint buffers.  Length LEN concrete; key, IV, header and
   contents symbolic.  Block function uninterpreted under CBMC, real natively. */
#include "verif.h"
#include "bee2/core/mem.h"
#include "bee2/core/err.h"
#include "bee2/core/der.h"
#include "bee2/crypto/belt.h"

#ifndef LEN
#define LEN 20
#endif
#define EXTRA 16                       /* KWP: dest is 16 octets longer than src */
#define ARENA (3 * (LEN + EXTRA) + 2)

static int o_eq(const octet* a, const octet* b, size_t n)
{
	size_t i;
	for (i = 0; i < n; ++i) if (a[i] != b[i]) return 0;
	return 1;
}
static void o_copy(octet* d, const octet* s, size_t n) { size_t i; for (i = 0; i < n; ++i) d[i] = s[i]; }

#define PLACE(dlen, slen) \
	V_IN_ARR(octet, ar0, ARENA); V_IN_ARR(octet, key, 32); V_IN_ARR(octet, iv, 16); \
	V_IN(unsigned char, od); V_IN(unsigned char, os); \
	octet AR[ARENA], S[LEN + EXTRA], E[LEN + EXTRA]; \
	err_t e1, e2; \
	V_TWEAK(od, od %= ARENA - (dlen) + 1); V_TWEAK(os, os %= ARENA - (slen) + 1); \
	V_ASSUME(od + (dlen) <= ARENA && os + (slen) <= ARENA); \
	o_copy(AR, ar0, ARENA); o_copy(S, ar0 + os, slen)

#define SAME_LEN(NAME, CALL_A, CALL_D) \
void h_##NAME(void) \
{ \
	PLACE(LEN, LEN); \
	e1 = CALL_A; e2 = CALL_D; \
	V_ASSERT(e1 == e2, #NAME ": same return code with overlapping and with disjoint buffers"); \
	V_ASSERT(e1 != ERR_OK || o_eq(AR + od, E, LEN), #NAME ": overlapping placement == disjoint-buffer result"); \
	V_CANARY(#NAME); \
}
SAME_LEN(ecb_e, beltECBEncr(AR + od, AR + os, LEN, key, 32), beltECBEncr(E, S, LEN, key, 32))
SAME_LEN(ecb_d, beltECBDecr(AR + od, AR + os, LEN, key, 32), beltECBDecr(E, S, LEN, key, 32))
SAME_LEN(cbc_e, beltCBCEncr(AR + od, AR + os, LEN, key, 32, iv), beltCBCEncr(E, S, LEN, key, 32, iv))
SAME_LEN(cbc_d, beltCBCDecr(AR + od, AR + os, LEN, key, 32, iv), beltCBCDecr(E, S, LEN, key, 32, iv))
SAME_LEN(cfb_e, beltCFBEncr(AR + od, AR + os, LEN, key, 32, iv), beltCFBEncr(E, S, LEN, key, 32, iv))
SAME_LEN(cfb_d, beltCFBDecr(AR + od, AR + os, LEN, key, 32, iv), beltCFBDecr(E, S, LEN, key, 32, iv))
SAME_LEN(ctr, beltCTR(AR + od, AR + os, LEN, key, 32, iv), beltCTR(E, S, LEN, key, 32, iv))

/* key wrapping: dest has LEN + 16 octets; with and without a header */
void h_kwp_wrap(void)
{
	PLACE(LEN + 16, LEN);
	V_IN_ARR(octet, hdr, 16);
	e1 = beltKWPWrap(AR + od, AR + os, LEN, hdr, key, 32);
	e2 = beltKWPWrap(E, S, LEN, hdr, key, 32);
	V_ASSERT(e1 == e2, "beltKWPWrap (header): same return code with overlapping and with disjoint buffers");
	V_ASSERT(e1 != ERR_OK || o_eq(AR + od, E, LEN + 16), "beltKWPWrap (header): overlapping placement == disjoint-buffer result");
	o_copy(AR, ar0, ARENA);
	e1 = beltKWPWrap(AR + od, AR + os, LEN, 0, key, 32);
	e2 = beltKWPWrap(E, S, LEN, 0, key, 32);
	V_ASSERT(e1 == e2 && (e1 != ERR_OK || o_eq(AR + od, E, LEN + 16)), "beltKWPWrap (zero header): overlapping placement == disjoint-buffer result");
	V_CANARY("kwp_wrap");
}

/* key expansion in place, DER encoding with the value inside the output */
void h_misc(void)
{
	V_IN_ARR(octet, k0, 32);
	octet K[32], E[32];
	o_copy(K, k0, 32);
	beltKeyExpand(E, k0, 24);
	beltKeyExpand(K, K, 24);
	V_ASSERT(o_eq(K, E, 32), "beltKeyExpand in place == disjoint result");
	{
		V_IN_ARR(octet, v0, 12); V_IN(unsigned char, off);
		octet D1[20], D2[20];
		size_t n1, n2;
		V_TWEAK(off, off %= 9);
		V_ASSUME(off <= 8);
		o_copy(D1 + off, v0, 12);
		n1 = derEnc(D1, 0x04, D1 + off, 12);
		n2 = derEnc(D2, 0x04, v0, 12);
		V_ASSERT(n1 == n2 && n1 == 14 && o_eq(D1, D2, 14), "derEnc with val inside der == disjoint result");
	}
	V_CANARY("misc");
}
