/* C09 / C15 groups hl2.*: further err_t-returning high-level functions, native runs with the
   ghost allocator (allocation-failure injection at every ordinal, live-allocation balance,
   wipe tracking).  What is checked for every call: no allocation left behind, every released
   block wiped over its whole size, a failed allocation is answered with ERR_OUTOFMEMORY (never
   ERR_OK), out-of-domain scalars with the documented error class. */
#include "verif.h"
#include "bee2/core/mem.h"
#include "bee2/core/err.h"
#include "bee2/crypto/belt.h"
#include "bee2/crypto/bels.h"
#include "bee2/crypto/brng.h"
#include "bee2/crypto/botp.h"
#include "bee2/crypto/bash.h"

extern unsigned g_live, g_allocs, g_failed, g_fail_at, g_unwiped_free;
#define BEGIN(fail) do { g_live = g_allocs = g_failed = g_unwiped_free = 0; g_fail_at = (fail); } while (0)
#define END(NAME, e, args_ok, baderr) do { \
	V_ASSERT(g_live == 0, NAME ": no allocation is left behind"); \
	V_ASSERT(g_unwiped_free == 0, NAME ": every released block was wiped over its whole size"); \
	V_ASSERT(!g_failed || (e) != ERR_OK, NAME ": a failed allocation is not answered with ERR_OK"); \
	V_ASSERT(!(g_failed && (args_ok)) || (e) == ERR_OUTOFMEMORY, NAME ": allocation failure with valid arguments => ERR_OUTOFMEMORY"); \
	V_ASSERT((args_ok) || (e) == (baderr) || (g_failed && (e) == ERR_OUTOFMEMORY), NAME ": argument outside the documented domain => documented error class (or ERR_OUTOFMEMORY if an allocation failed first)"); \
	V_ASSERT(!(args_ok) || g_failed || (e) == ERR_OK, NAME ": valid arguments and no allocation failure => ERR_OK"); } while (0)

void h_bels(void)
{
	V_IN_ARR(octet, s, 32); V_IN(unsigned char, cnt); V_IN(unsigned char, thr); V_IN(unsigned char, lsel); V_IN(unsigned char, fail);
	octet si[16 * 33], rec[32];
	size_t len, count, threshold; err_t e; int ok;
	V_TWEAK(cnt, cnt %= 19); V_TWEAK(thr, thr %= 19); V_TWEAK(fail, fail %= 8); V_TWEAK(lsel, lsel %= 5);
	V_ASSUME(cnt <= 18 && thr <= 18 && fail <= 7 && lsel <= 4);
	len = lsel == 0 ? 16 : lsel == 1 ? 24 : lsel == 2 ? 32 : lsel == 3 ? 20 : 0;
	count = cnt, threshold = thr;
	ok = (len == 16 || len == 24 || len == 32) && threshold >= 1 && threshold <= count && count <= 16;
	BEGIN(fail);
	e = belsShare3(si, count, threshold, len, s);
	END("belsShare3", e, ok, ERR_BAD_INPUT);
	if (ok && e == ERR_OK)
	{
		BEGIN(fail);
		e = belsRecover2(rec, threshold, len, si);
		END("belsRecover2", e, 1, ERR_BAD_INPUT);
		if (e == ERR_OK)
		{
			size_t i; int same = 1;
			for (i = 0; i < len; ++i) same &= (rec[i] == s[i]);
			V_ASSERT(same, "belsRecover2(belsShare3(s)) == s from the first `threshold` shares");
		}
	}
	V_CANARY("bels");
}

void h_kdf(void)
{
	V_IN_ARR(octet, src, 32); V_IN_ARR(octet, level, 12); V_IN_ARR(octet, hdr, 16); V_IN_ARR(octet, pwd, 16);
	V_IN(unsigned char, msel); V_IN(unsigned char, nsel); V_IN(unsigned char, fail); V_IN(unsigned char, iter);
	octet dest[32];
	size_t m, n; err_t e; int ok;
	V_TWEAK(msel, msel %= 5); V_TWEAK(nsel, nsel %= 5); V_TWEAK(fail, fail %= 4);
	V_ASSUME(msel <= 4 && nsel <= 4 && fail <= 3);
	m = msel == 0 ? 16 : msel == 1 ? 24 : msel == 2 ? 32 : msel == 3 ? 8 : 40;
	n = nsel == 0 ? 16 : nsel == 1 ? 24 : nsel == 2 ? 32 : nsel == 3 ? 8 : 12;
	ok = (m == 16 || m == 24 || m == 32) && (n == 16 || n == 24 || n == 32) && m <= n;
	BEGIN(fail);
	e = beltKRP(dest, m, src, n, level, hdr);
	END("beltKRP", e, ok, ERR_BAD_INPUT);
	BEGIN(fail);
	e = beltPBKDF2(dest, pwd, 16, iter, src, 8);
	END("beltPBKDF2", e, iter >= 1, ERR_BAD_INPUT);
	V_CANARY("kdf");
}

void h_rng_otp(void)
{
	V_IN_ARR(octet, key, 32); V_IN_ARR(octet, iv, 32); V_IN_ARR(octet, ctr, 8); V_IN(unsigned char, fail); V_IN(unsigned char, dg); V_IN(unsigned char, lv);
	octet buf[70], ivc[32]; char otp[12]; err_t e;
	size_t i, digit;
	V_TWEAK(fail, fail %= 4); V_TWEAK(dg, dg %= 13); V_TWEAK(lv, lv %= 20);
	V_ASSUME(fail <= 3 && dg <= 12 && lv <= 19);
	for (i = 0; i < 32; ++i) ivc[i] = iv[i];
	BEGIN(fail); e = brngCTRRand(buf, 70, key, ivc); END("brngCTRRand", e, 1, ERR_BAD_INPUT);
	BEGIN(fail); e = brngHMACRand(buf, 70, key, 32, iv, 32); END("brngHMACRand", e, 1, ERR_BAD_INPUT);
	digit = dg;
	BEGIN(fail); e = botpHOTPRand(otp, digit, key, 32, ctr); END("botpHOTPRand", e, digit >= 6 && digit <= 8, ERR_BAD_PARAMS);
	{ octet h[64]; size_t l = 16 * (size_t)lv;
	  BEGIN(fail); e = bashHash(h, l, buf, 70); END("bashHash", e, l > 0 && l <= 256, ERR_BAD_PARAMS); }
	V_CANARY("rng_otp");
}
