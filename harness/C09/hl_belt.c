/* C09 / C15 groups hl.*: error contract and wipe-before-free of the high-level belt
   functions.  For every function: arguments outside the documented domain (key length, data
   length) yield ERR_BAD_INPUT and leave dest untouched; a failed allocation (any ordinal)
   yields ERR_OUTOFMEMORY; no allocation is left behind on any exit; every released block was
   wiped over its whole size (obligation inside the ghost memFree, stubs/mem_ghost.c).
   Data length CNT concrete (valid and invalid values are separate groups), key length and
   all contents symbolic; block function uninterpreted under CBMC. */
#include "verif.h"
#include "bee2/core/mem.h"
#include "bee2/core/err.h"
#include "bee2/crypto/belt.h"

extern unsigned g_live, g_allocs, g_failed, g_fail_at, g_unwiped_free;

#ifndef CNT
#define CNT 17
#endif
#define CC (CNT ? CNT : 1)
static int o_eq(const octet* a, const octet* b, size_t n)
{
	size_t i;
	for (i = 0; i < n; ++i) if (a[i] != b[i]) return 0;
	return 1;
}
static void o_copy(octet* d, const octet* s, size_t n) { size_t i; for (i = 0; i < n; ++i) d[i] = s[i]; }

#define COMMON \
	V_IN_ARR(octet, key, 32); V_IN_ARR(octet, iv, 16); V_IN_ARR(octet, src, CC + 16); V_IN_ARR(octet, d0, CC + 32); \
	V_IN(size_t, len); V_IN(unsigned char, fail_at); \
	octet dest[CC + 32]; err_t e; int len_ok; \
	V_TWEAK(len, len = (v_rand() % 2) ? 16 + 8 * (v_rand() % 3) : (v_rand() % 2) ? v_rand() % 40 : len); \
	V_TWEAK(fail_at, fail_at %= 4); \
	V_ASSUME(fail_at <= 3); \
	o_copy(dest, d0, CC + 32); \
	g_live = g_allocs = g_failed = g_unwiped_free = 0; g_fail_at = fail_at; \
	len_ok = (len == 16 || len == 24 || len == 32)

#define VERDICT(NAME, cnt_ok, outlen) \
	V_ASSERT(g_live == 0, NAME ": no allocation is left behind"); \
	V_ASSERT(g_unwiped_free == 0, NAME ": every released block was wiped over its whole size"); \
	V_ASSERT((len_ok && (cnt_ok)) || e == ERR_BAD_INPUT, NAME ": key or data length outside the documented domain => ERR_BAD_INPUT"); \
	V_ASSERT(!(len_ok && (cnt_ok)) || e == (g_failed ? ERR_OUTOFMEMORY : ERR_OK), NAME ": valid arguments => ERR_OK, or ERR_OUTOFMEMORY exactly when an allocation failed"); \
	V_ASSERT(e == ERR_OK || o_eq(dest, d0, outlen), NAME ": outputs are untouched when an error is returned")

#define HL_IV(NAME, F, cnt_ok) \
void h_##NAME(void) { COMMON; e = F(dest, src, CNT, key, len, iv); VERDICT(#F, cnt_ok, CNT); V_CANARY(#NAME); }
#define HL_NOIV(NAME, F, cnt_ok) \
void h_##NAME(void) { COMMON; e = F(dest, src, CNT, key, len); VERDICT(#F, cnt_ok, CNT); V_CANARY(#NAME); }
HL_NOIV(ecb_e, beltECBEncr, CNT >= 16)
HL_NOIV(ecb_d, beltECBDecr, CNT >= 16)
HL_IV(cbc_e, beltCBCEncr, CNT >= 16)
HL_IV(cbc_d, beltCBCDecr, CNT >= 16)
HL_IV(cfb_e, beltCFBEncr, 1)
HL_IV(cfb_d, beltCFBDecr, 1)
HL_IV(ctr, beltCTR, 1)
HL_IV(bde_e, beltBDEEncr, CNT >= 16 && CNT % 16 == 0)
HL_IV(bde_d, beltBDEDecr, CNT >= 16 && CNT % 16 == 0)
HL_IV(sde_e, beltSDEEncr, CNT >= 32 && CNT % 16 == 0)
HL_IV(sde_d, beltSDEDecr, CNT >= 32 && CNT % 16 == 0)

void h_mac(void) { COMMON; e = beltMAC(dest, src, CNT, key, len); VERDICT("beltMAC", 1, 8); V_CANARY("mac"); }
void h_hmac(void) { COMMON; V_ASSUME(len <= 32); e = beltHMAC(dest, src, CNT, key, len); (void)len_ok; len_ok = 1; VERDICT("beltHMAC", 1, 32); V_CANARY("hmac"); }
void h_hash(void) { COMMON; e = beltHash(dest, src, CNT); (void)len_ok; len_ok = 1; VERDICT("beltHash", 1, 32); V_CANARY("hash"); }
void h_kwp_w(void) { COMMON; e = beltKWPWrap(dest, src, CNT, iv, key, len); VERDICT("beltKWPWrap", CNT >= 16, CNT + 16); V_CANARY("kwp_w"); }
void h_kwp_u(void)
{
	COMMON;
	e = beltKWPUnwrap(dest, src, CNT, iv, key, len);
	V_ASSERT(g_live == 0, "beltKWPUnwrap: no allocation is left behind");
	V_ASSERT(g_unwiped_free == 0, "beltKWPUnwrap: every released block was wiped over its whole size");
	V_ASSERT((len_ok && CNT >= 32) || e == ERR_BAD_INPUT, "beltKWPUnwrap: key or token length outside the documented domain => ERR_BAD_INPUT");
	V_ASSERT(!(len_ok && CNT >= 32) || e == ERR_OK || e == ERR_BAD_KEYTOKEN || (g_failed && e == ERR_OUTOFMEMORY), "beltKWPUnwrap: documented return codes only");
	/* verify before release: a rejected token leaves no unwrapped key material in dest */
	if (e == ERR_BAD_KEYTOKEN)
	{
		size_t i; int zero = 1;
		for (i = 0; i + 16 < CNT; ++i) zero &= (dest[i] == 0);
		V_ASSERT(zero || o_eq(dest, d0, CNT - 16), "beltKWPUnwrap: a rejected token releases no key octets (dest cleared or untouched)");
	}
	else if (e != ERR_OK)
		V_ASSERT(o_eq(dest, d0, CC), "beltKWPUnwrap: outputs are untouched when an argument error is returned");
	/* zero header (NULL): a token that was not produced by beltKWPWrap must not unwrap (native only: the probability that a
	   generated token decrypts to a zero header is 2^-128) */
	V_NATIVE_ONLY(if (len_ok && CNT >= 32) { g_fail_at = 0; e = beltKWPUnwrap(dest, src, CNT, 0, key, len);
		V_ASSERT(e == ERR_BAD_KEYTOKEN, "beltKWPUnwrap (zero header): an arbitrary token is rejected with ERR_BAD_KEYTOKEN"); })
	V_CANARY("kwp_u");
}
void h_dwp_u(void)
{
	COMMON;
	V_IN_ARR(octet, tag, 8);
	e = beltDWPUnwrap(dest, src, CNT, iv, 16, tag, key, len, iv);
	V_ASSERT(g_live == 0, "beltDWPUnwrap: no allocation is left behind");
	V_ASSERT(g_unwiped_free == 0, "beltDWPUnwrap: every released block was wiped over its whole size");
	V_ASSERT(len_ok || e == ERR_BAD_INPUT, "beltDWPUnwrap: key length outside {16,24,32} => ERR_BAD_INPUT");
	V_ASSERT(e == ERR_OK || o_eq(dest, d0, CC), "beltDWPUnwrap: no plaintext is released unless the tag verifies (dest untouched on every error)");
	V_CANARY("dwp_u");
}
void h_che_u(void)
{
	COMMON;
	V_IN_ARR(octet, tag, 8);
	e = beltCHEUnwrap(dest, src, CNT, iv, 16, tag, key, len, iv);
	V_ASSERT(g_live == 0, "beltCHEUnwrap: no allocation is left behind");
	V_ASSERT(g_unwiped_free == 0, "beltCHEUnwrap: every released block was wiped over its whole size");
	V_ASSERT(len_ok || e == ERR_BAD_INPUT, "beltCHEUnwrap: key length outside {16,24,32} => ERR_BAD_INPUT");
	V_ASSERT(e == ERR_OK || o_eq(dest, d0, CC), "beltCHEUnwrap: no plaintext is released unless the tag verifies (dest untouched on every error)");
	V_CANARY("che_u");
}
