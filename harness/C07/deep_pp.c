/* C07 regime (b) for the pp layer: ppIsIrred, ppMinPoly, ppMinPolyMod run on a scratch stack of
   EXACTLY f_deep(...) octets, operands and results in objects of exactly the documented size. */
#include "verif.h"
#include "bee2/math/pp.h"
#include "bee2/math/ww.h"
#include "bee2/core/word.h"
#include "harness/ref.h"

#ifndef N
#define N 2
#endif
#define WBUF(name, n) V_ALLOC(word, name, (n) * sizeof(word))
#define FILL(dst, src, n) do { size_t i_; for (i_ = 0; i_ < (n); ++i_) (dst)[i_] = (src)[i_]; } while (0)
static int bit_(const word* a, size_t i) { return (int)(a[i / B_PER_W] >> (i % B_PER_W)) & 1; }

#ifdef F_ppIsIrred
void h_deep(void)
{
	V_IN_ARR(word, a0, N);
	WBUF(a, N);
	V_ALLOC(octet, stack, ppIsIrred_deep(N));
	V_TWEAK(a0, a0[0] |= 1; if (v_rand() % 4 == 0) a0[N - 1] = 0);
	FILL(a, a0, N);
	(void)ppIsIrred(a, N, stack);
	V_CANARY("deep ppIsIrred");
}
#endif
#ifdef F_ppMinPoly
#ifndef L
#define L (N * B_PER_W)
#endif
void h_deep(void)
{
	enum { n = W_OF_B(L), m = W_OF_B(L + 1) };
	V_IN_ARR(word, a0, 2 * n);
	WBUF(a, 2 * n); WBUF(b, m);
	V_ALLOC(octet, stack, ppMinPoly_deep(L));
	size_t i, j, d;
	/* half of the generated sequences come from an LFSR of length <= l */
	V_TWEAK(a0, if (v_rand() % 2) { unsigned char q[2 * L], g[L + 1]; size_t dg = v_rand() % (L + 1);
		for (j = 0; j < dg; ++j) g[j] = v_rand() & 1, q[j] = v_rand() & 1;
		for (i = dg; i < 2 * L; ++i) { q[i] = 0; for (j = 0; j < dg; ++j) q[i] ^= g[j] & q[i - dg + j]; }
		memset(a0, 0, sizeof(a0));
		for (i = 0; i < 2 * L; ++i) if (q[i]) a0[(2 * L - 1 - i) / B_PER_W] |= (word)1 << ((2 * L - 1 - i) % B_PER_W); });
	FILL(a, a0, 2 * n);
	ppMinPoly(b, a, L, stack);
	V_ASSERT(!r_iszero(b, m), "ppMinPoly: b != 0");
	for (d = m * B_PER_W; d-- && !bit_(b, d););
	V_ASSERT(d <= L, "ppMinPoly: deg b <= l");
	/* Berlekamp-Massey reference over s_i = bit (2l - 1 - i) of a: when the linear complexity is <= l the
	   minimal polynomial is unique and b must be it */
	{
		static unsigned char S[2 * L], C[2 * L + 2], B[2 * L + 2], T[2 * L + 2];
		size_t lc = 0, sh = 1;
		for (i = 0; i < 2 * L; ++i) S[i] = (unsigned char)bit_(a0, 2 * L - 1 - i);
		memset(C, 0, sizeof(C)); memset(B, 0, sizeof(B)); C[0] = B[0] = 1;
		for (i = 0; i < 2 * L; ++i)
		{
			unsigned char dd = S[i];
			for (j = 1; j <= lc; ++j) dd ^= C[j] & S[i - j];
			if (!dd) ++sh;
			else if (2 * lc <= i)
			{
				memcpy(T, C, sizeof(C));
				for (j = 0; j + sh < sizeof(C); ++j) C[j + sh] ^= B[j];
				lc = i + 1 - lc; memcpy(B, T, sizeof(C)); sh = 1;
			}
			else { for (j = 0; j + sh < sizeof(C); ++j) C[j + sh] ^= B[j]; ++sh; }
		}
		if (lc <= L)
		{
			int same = 1;
			for (j = 0; j < m * B_PER_W; ++j)
				same &= bit_(b, j) == (j <= lc ? C[lc - j] : 0);
			V_ASSERT(same, "ppMinPoly == Berlekamp-Massey minimal polynomial (linear complexity <= l)");
		}
	}
	V_CANARY("deep ppMinPoly");
}
#endif
#ifdef F_ppMinPolyMod
void h_deep(void)
{
	V_IN_ARR(word, a0, N); V_IN_ARR(word, m0, N);
	WBUF(a, N); WBUF(b, N); WBUF(mod, N);
	V_ALLOC(octet, stack, ppMinPolyMod_deep(N));
	V_TWEAK(m0, if (v_rand() % 2) m0[N - 1] >>= v_rand() % B_PER_W; if (m0[N - 1] < 4) m0[N - 1] |= 4);
	V_TWEAK(a0, { size_t dm = r_pdeg(m0, N); size_t i; for (i = dm; i < N * B_PER_W; ++i) a0[i / B_PER_W] &= ~((word)1 << (i % B_PER_W)); });
	V_ASSUME(m0[N - 1] != 0 && r_pdeg(m0, N) > 1);   /* mod[n - 1] != 0: precondition of ppMulMod, implied by the header's remark on the extra zero word */
	V_ASSUME(r_iszero(a0, N) || r_pdeg(a0, N) < r_pdeg(m0, N));
	FILL(a, a0, N); FILL(mod, m0, N);
	ppMinPolyMod(b, a, mod, N, stack);
	V_CANARY("deep ppMinPolyMod");
}
#endif
#ifdef F_ppMulAll
/* every operand size 1..24 x 1..24 (Karatsuba levels and the fixed-size kernels) on a stack of exactly ppMul_deep(n, m) /
   ppSqr_deep(n) / ppDiv_deep / ppMod_deep octets; products against the schoolbook carry-less reference */
void h_deep(void)
{
	V_IN(unsigned, sel); V_IN_ARR(word, a0, 24); V_IN_ARR(word, b0, 24);
	size_t n = 1 + sel % 24, m = 1 + (sel / 24) % 24;
	WBUF(a, n); WBUF(b, m); WBUF(c, n + m); WBUF(c2, 2 * n);
	word ref[48];
	FILL(a, a0, n); FILL(b, b0, m);
	{
		V_ALLOC(octet, stack, ppMul_deep(n, m));
		ppMul(c, a, n, b, m, stack);
		r_pmul(ref, a0, n, b0, m);
		V_ASSERT(r_eq(c, ref, n + m), "ppMul == schoolbook carry-less product");
	}
	{
		V_ALLOC(octet, stack, ppSqr_deep(n));
		ppSqr(c2, a, n, stack);
		r_pmul(ref, a0, n, a0, n);
		V_ASSERT(r_eq(c2, ref, 2 * n), "ppSqr == schoolbook carry-less square");
	}
	if (n >= m && b0[m - 1] != 0)
	{
		WBUF(q, n - m + 1); WBUF(r, m); WBUF(r2, m);
		V_ALLOC(octet, stack, ppDiv_deep(n, m)); V_ALLOC(octet, stack2, ppMod_deep(n, m));
		ppDiv(q, r, a, n, b, m, stack);
		ppMod(r2, a, n, b, m, stack2);
		r_pmod(ref, a0, n, b0, m);
		V_ASSERT(r_eq(r, ref, m) && r_eq(r2, ref, m), "ppDiv / ppMod remainder == reference");
	}
	V_CANARY("deep ppMulAll");
}
#endif
