/* C07 regime (b), modular form: the caller's real body on a stack of exactly f_deep()
   octets, heavy callees replaced by the memory side of their contracts (contracts/zz_calc.h). */
#include "contracts/zz_calc.h"
#include "bee2/math/ww.h"
#include <stdlib.h>
#include "harness/ref.h"
#ifndef N
#define N 4
#endif
#define CANARY __CPROVER_assert(0, "canary: the call returns")
#define WBUF(name, n) word* name = (word*)malloc((n) * sizeof(word)); __CPROVER_assume(name != 0)
#define SBUF(name, sz) void* name = malloc(sz); __CPROVER_assume(name != 0)

void h_calc_zzSqrt(void)
{
	WBUF(a, N); WBUF(b, (N + 1) / 2);
	SBUF(stack, zzSqrt_deep(N));
	zzSqrt(b, a, N, stack);
	CANARY;
}
void h_calc_zzMulMod(void)
{
	WBUF(a, N); WBUF(b, N); WBUF(c, N); WBUF(mod, N);
	word w;
	__CPROVER_assume(mod[N - 1] != 0 && r_cmp(a, mod, N) < 0 && r_cmp(b, mod, N) < 0);   /* value preconditions of zz.h */
	{ SBUF(stack, zzMulMod_deep(N)); zzMulMod(c, a, b, mod, N, stack); }
	{ SBUF(stack, zzSqrMod_deep(N)); zzSqrMod(c, a, mod, N, stack); }
	{ SBUF(stack, zzMulWMod_deep(N)); zzMulWMod(c, a, w, mod, N, stack); }
	CANARY;
}
void h_calc_zzRed(void)
{
	WBUF(a, 2 * N); WBUF(mod, N); WBUF(bp, N + 2);
	__CPROVER_assume(mod[N - 1] != 0);
	{ SBUF(stack, zzRed_deep(N)); zzRed(a, mod, N, stack); }
	{ SBUF(stack, zzRedBarrStart_deep(N)); zzRedBarrStart(bp, mod, N, stack); }
	{ SBUF(stack, zzRedBarr_deep(N)); zzRedBarr(a, mod, N, bp, stack); }
	{ SBUF(stack, zzRedBarr_deep(N)); zzRedBarr_fast(a, mod, N, bp, stack); }
	CANARY;
}
