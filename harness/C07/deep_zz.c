/* C07 regime (b): stack-using functions of the zz layer run on a scratch stack of EXACTLY
   f_deep(...) octets and operands/results in objects of exactly the documented size.
   Operand sizes N, M concrete; contents symbolic under the header's preconditions. */
#include "verif.h"
#include "bee2/math/zz.h"
#include "bee2/math/ww.h"
#include "bee2/core/word.h"
#include "harness/ref.h"

#ifndef N
#define N 2
#endif
#ifndef M
#define M N
#endif
#define MIN_(a, b) ((a) < (b) ? (a) : (b))
#define MAX_(a, b) ((a) > (b) ? (a) : (b))
#define WBUF(name, n) V_ALLOC(word, name, (n) * sizeof(word))
#define FILL(dst, src, n) do { size_t i_; for (i_ = 0; i_ < (n); ++i_) (dst)[i_] = (src)[i_]; } while (0)

#ifdef F_zzSqrt
void h_deep(void)
{
	V_IN_ARR(word, a0, N);
	WBUF(a, N); WBUF(b, (N + 1) / 2);
	V_ALLOC(octet, stack, zzSqrt_deep(N));
	FILL(a, a0, N);
	zzSqrt(b, a, N, stack);
	V_CANARY("deep zzSqrt");
}
#endif
#ifdef F_zzDiv
void h_deep(void)
{
	V_IN_ARR(word, a0, N); V_IN_ARR(word, b0, M);
	WBUF(a, N); WBUF(b, M); WBUF(q, N - M + 1); WBUF(r, M);
	V_ALLOC(octet, stack, zzDiv_deep(N, M));
	V_TWEAK(b0, if (!b0[M - 1]) b0[M - 1] = 1 + (word)v_rand());
	V_ASSUME(b0[M - 1] != 0);
	FILL(a, a0, N); FILL(b, b0, M);
	zzDiv(q, r, a, N, b, M, stack);
	V_ASSERT(r_cmp(r, b, M) < 0, "zzDiv remainder < divisor");
	FILL(a, a0, N);
	{
		V_ALLOC(octet, stack2, zzMod_deep(N, M));
		WBUF(r2, M);
		zzMod(r2, a, N, b, M, stack2);
		V_ASSERT(r_eq(r, r2, M), "zzMod == remainder of zzDiv");
	}
	V_CANARY("deep zzDiv");
}
#endif
#ifdef F_zzMulMod
void h_deep(void)
{
	V_IN_ARR(word, a0, N); V_IN_ARR(word, b0, N); V_IN_ARR(word, m0, N); V_IN(word, w);
	WBUF(a, N); WBUF(b, N); WBUF(c, N); WBUF(mod, N);
	V_TWEAK(m0, m0[N - 1] |= (word)1 << (B_PER_W - 1));
	V_TWEAK(a0, a0[N - 1] >>= 1); V_TWEAK(b0, b0[N - 1] >>= 1);
	V_ASSUME(m0[N - 1] != 0 && r_cmp(a0, m0, N) < 0 && r_cmp(b0, m0, N) < 0);
	FILL(a, a0, N); FILL(b, b0, N); FILL(mod, m0, N);
	{ V_ALLOC(octet, stack, zzMulMod_deep(N)); zzMulMod(c, a, b, mod, N, stack); V_ASSERT(r_cmp(c, mod, N) < 0, "zzMulMod result < mod"); }
	{ V_ALLOC(octet, stack, zzSqrMod_deep(N)); zzSqrMod(c, a, mod, N, stack); V_ASSERT(r_cmp(c, mod, N) < 0, "zzSqrMod result < mod"); }
	{ V_ALLOC(octet, stack, zzMulWMod_deep(N)); zzMulWMod(c, a, w, mod, N, stack); V_ASSERT(r_cmp(c, mod, N) < 0, "zzMulWMod result < mod"); }
	V_CANARY("deep zzMulMod");
}
#endif
#ifdef F_zzRed
void h_deep(void)
{
	V_IN_ARR(word, a0, 2 * N); V_IN_ARR(word, m0, N);
	WBUF(a, 2 * N); WBUF(mod, N); WBUF(bp, N + 2);
	word E[N];
	V_TWEAK(m0, if (!m0[N - 1]) m0[N - 1] = 1);
	V_ASSUME(m0[N - 1] != 0);
	FILL(mod, m0, N);
	r_mod(E, a0, 2 * N, m0, N);
	{ V_ALLOC(octet, stack, zzRed_deep(N)); FILL(a, a0, 2 * N); zzRed(a, mod, N, stack); V_ASSERT(r_eq(a, E, N), "zzRed == a mod m"); }
	{ V_ALLOC(octet, stack, zzRedBarrStart_deep(N)); zzRedBarrStart(bp, mod, N, stack); }
	{ V_ALLOC(octet, stack, zzRedBarr_deep(N)); FILL(a, a0, 2 * N); zzRedBarr(a, mod, N, bp, stack); V_ASSERT(r_eq(a, E, N), "zzRedBarr (SAFE) == a mod m"); }
	{ V_ALLOC(octet, stack, zzRedBarr_deep(N)); FILL(a, a0, 2 * N); FAST(zzRedBarr)(a, mod, N, bp, stack); V_ASSERT(r_eq(a, E, N), "zzRedBarr (FAST) == a mod m"); }
	V_CANARY("deep zzRed");
}
#endif
#ifdef F_zzGCD
void h_deep(void)
{
	V_IN_ARR(word, a0, N); V_IN_ARR(word, b0, M);
	WBUF(a, N); WBUF(b, M); WBUF(d, MIN_(N, M)); WBUF(l, MAX_(N, M) * 2); WBUF(da, M); WBUF(db, N);
	V_TWEAK(a0, if (r_iszero(a0, N)) a0[0] = 1); V_TWEAK(b0, if (r_iszero(b0, M)) b0[0] = 1);
	V_ASSUME(!r_iszero(a0, N) && !r_iszero(b0, M));
	FILL(a, a0, N); FILL(b, b0, M);
	{ V_ALLOC(octet, stack, zzGCD_deep(N, M)); zzGCD(d, a, N, b, M, stack); }
	V_NATIVE_ONLY({ word g[MIN_(N, M)]; FILL(g, d, MIN_(N, M));
	{ V_ALLOC(octet, stack, zzIsCoprime_deep(N, M)); zzIsCoprime(a, N, b, M, stack); }
	{ V_ALLOC(octet, stack, zzLCM_deep(N, M)); zzLCM(l, a, N, b, M, stack); }
	{ V_ALLOC(octet, stack, zzExGCD_deep(N, M)); zzExGCD(d, da, db, a, N, b, M, stack); }
	/* native search only (multiplication): Bezout identity da * a - db * b == d and d == zzGCD */
	{ word p1[N + M], p2[N + M], df[N + M], dd[N + M]; size_t i_; r_mul(p1, da, M, a0, N); r_mul(p2, db, N, b0, M);
	  V_ASSERT(r_sub(df, p1, p2, N + M, 0) == 0, "zzExGCD: da * a >= db * b");
	  for (i_ = 0; i_ < N + M; ++i_) dd[i_] = i_ < MIN_(N, M) ? d[i_] : 0;
	  V_ASSERT(r_eq(df, dd, N + M), "zzExGCD: da * a - db * b == d");
	  V_ASSERT(r_eq(g, d, MIN_(N, M)), "zzExGCD: d == zzGCD(a, b)"); } })
	if (b0[0] & 1) { V_ALLOC(octet, stack, zzJacobi_deep(N, M)); zzJacobi(a, N, b, M, stack); }
	V_CANARY("deep zzGCD");
}
#endif
#ifdef F_zzInvMod
void h_deep(void)
{
	V_IN_ARR(word, a0, N); V_IN_ARR(word, d0, N); V_IN_ARR(word, m0, N);
	WBUF(a, N); WBUF(dv, N); WBUF(b, N); WBUF(mod, N);
	V_TWEAK(m0, m0[N - 1] |= (word)1 << (B_PER_W - 1); m0[0] |= 1);
	V_TWEAK(a0, a0[N - 1] >>= 1; if (r_iszero(a0, N)) a0[0] = 1); V_TWEAK(d0, d0[N - 1] >>= 1);
	V_ASSUME((m0[0] & 1) && m0[N - 1] != 0 && r_cmp(a0, m0, N) < 0 && r_cmp(d0, m0, N) < 0 && !r_iszero(a0, N));
	FILL(a, a0, N); FILL(dv, d0, N); FILL(mod, m0, N);
	{ V_ALLOC(octet, stack, zzDivMod_deep(N)); zzDivMod(b, dv, a, mod, N, stack); }
	/* native search only: when a is invertible, b * a == divident (mod mod); b < mod always */
	V_ASSERT(r_cmp(b, mod, N) < 0, "zzDivMod result < mod");
	V_NATIVE_ONLY({ word p[2 * N], r[N], one[N], g[N]; size_t i_; V_ALLOC(octet, st2, zzGCD_deep(N, N));
		for (i_ = 0; i_ < N; ++i_) one[i_] = i_ ? 0 : 1;
		zzGCD(g, a, N, mod, N, st2);
		if (r_eq(g, one, N)) { r_mul(p, b, N, a0, N); r_mod(r, p, 2 * N, m0, N); V_ASSERT(r_eq(r, d0, N), "zzDivMod: b * a == divident mod m"); } })
	{ V_ALLOC(octet, stack, zzInvMod_deep(N)); zzInvMod(b, a, mod, N, stack); }
	V_NATIVE_ONLY({ word p[2 * N], r[N], one[N], g[N]; size_t i_; V_ALLOC(octet, st2, zzGCD_deep(N, N));
		for (i_ = 0; i_ < N; ++i_) one[i_] = i_ ? 0 : 1;
		zzGCD(g, a, N, mod, N, st2);
		if (r_eq(g, one, N)) { r_mul(p, b, N, a0, N); r_mod(r, p, 2 * N, m0, N); V_ASSERT(r_eq(r, one, N), "zzInvMod: b * a == 1 mod m"); } })
	{ V_ALLOC(octet, stack, zzAlmostInvMod_deep(N)); zzAlmostInvMod(b, a, mod, N, stack); }
	V_CANARY("deep zzInvMod");
}
#endif
#ifdef F_zzPowerMod
void h_deep(void)
{
	V_IN_ARR(word, a0, N); V_IN_ARR(word, e0, M); V_IN_ARR(word, m0, N);
	WBUF(a, N); WBUF(e, M); WBUF(c, N); WBUF(mod, N);
	V_TWEAK(m0, m0[N - 1] |= (word)1 << (B_PER_W - 1));
	V_TWEAK(a0, a0[N - 1] >>= 1);
	V_ASSUME(m0[N - 1] != 0 && r_cmp(a0, m0, N) < 0);
	FILL(a, a0, N); FILL(e, e0, M); FILL(mod, m0, N);
	{ V_ALLOC(octet, stack, zzPowerMod_deep(N, M)); zzPowerMod(c, a, N, e, M, mod, stack); V_ASSERT(r_cmp(c, mod, N) < 0, "zzPowerMod result < mod"); }
	V_CANARY("deep zzPowerMod");
}
#endif
