/*
 * ref.h -- reference ("spec") arithmetic on little-endian word arrays, written for
 * obviousness, not speed.  It is the C rendering of the formulas in zz.h / ww.h / mem.h
 * (c + B^n carry == a + b, etc.) in a double-width type, shared by the CBMC and the
 * native build of every arithmetic harness.  No function of /repo is called from here.
 */
#ifndef REF_H
#define REF_H

#include "bee2/defs.h"

#if (B_PER_W == 64)
typedef unsigned __int128 rdw;
#elif (B_PER_W == 32)
typedef unsigned long long rdw;
#else
#error "B_PER_W"
#endif

#define R_MAXN 20

/* c <- a + b + cin, returns carry (0/1) */
static word r_add(word c[], const word a[], const word b[], size_t n, word cin)
{
	size_t i;
	rdw t = cin;
	for (i = 0; i < n; ++i)
	{
		t += (rdw)a[i] + b[i];
		c[i] = (word)t;
		t >>= B_PER_W;
	}
	return (word)t;
}

/* c <- a - b - bin mod B^n, returns borrow (0/1) */
static word r_sub(word c[], const word a[], const word b[], size_t n, word bin)
{
	size_t i;
	word borrow = bin;
	for (i = 0; i < n; ++i)
	{
		rdw t = (rdw)a[i] - b[i] - borrow;
		c[i] = (word)t;
		borrow = (word)(t >> B_PER_W) & 1;
	}
	return borrow;
}

/* b <- a + w, returns carry */
static word r_addw(word b[], const word a[], size_t n, word w)
{
	size_t i;
	rdw t = w;
	for (i = 0; i < n; ++i)
	{
		t += a[i];
		b[i] = (word)t;
		t >>= B_PER_W;
	}
	return (word)t;
}

/* b <- a - w mod B^n, returns borrow */
static word r_subw(word b[], const word a[], size_t n, word w)
{
	size_t i;
	word borrow = w;
	for (i = 0; i < n; ++i)
	{
		rdw t = (rdw)a[i] - borrow;
		b[i] = (word)t;
		borrow = (word)(t >> B_PER_W) & 1;
	}
	return borrow;
}

/* -1, 0, 1 */
static int r_cmp(const word a[], const word b[], size_t n)
{
	size_t i;
	for (i = n; i--;)
		if (a[i] != b[i])
			return a[i] < b[i] ? -1 : 1;
	return 0;
}

static int r_cmp2(const word a[], size_t n, const word b[], size_t m)
{
	size_t i;
	for (i = (n > m ? n : m); i--;)
	{
		word x = i < n ? a[i] : 0, y = i < m ? b[i] : 0;
		if (x != y)
			return x < y ? -1 : 1;
	}
	return 0;
}

static int r_iszero(const word a[], size_t n)
{
	size_t i;
	for (i = 0; i < n; ++i)
		if (a[i])
			return 0;
	return 1;
}

static int r_eq(const word a[], const word b[], size_t n)
{
	size_t i;
	for (i = 0; i < n; ++i)
		if (a[i] != b[i])
			return 0;
	return 1;
}

static void r_copy(word b[], const word a[], size_t n)
{
	size_t i;
	for (i = 0; i < n; ++i)
		b[i] = a[i];
}

/* number of significant words */
static size_t r_wordsize(const word a[], size_t n)
{
	while (n && a[n - 1] == 0)
		--n;
	return n;
}

/* number of significant bits */
static size_t r_bitsize(const word a[], size_t n)
{
	size_t bits;
	word t;
	n = r_wordsize(a, n);
	if (n == 0)
		return 0;
	bits = (n - 1) * B_PER_W;
	for (t = a[n - 1]; t; t >>= 1)
		++bits;
	return bits;
}

static int r_testbit(const word a[], size_t pos)
{
	return (int)((a[pos / B_PER_W] >> (pos % B_PER_W)) & 1);
}

/* b <- a * w + cin (n words), returns the carry word: a*w + cin == b + B^n carry */
static word r_mulw(word b[], const word a[], size_t n, word w, word cin)
{
	size_t i;
	rdw t = cin;
	for (i = 0; i < n; ++i)
	{
		t += (rdw)a[i] * w;
		b[i] = (word)t;
		t >>= B_PER_W;
	}
	return (word)t;
}

/* c[n + m] <- a[n] * b[m], schoolbook */
static void r_mul(word c[], const word a[], size_t n, const word b[], size_t m)
{
	size_t i, j;
	for (i = 0; i < n + m; ++i)
		c[i] = 0;
	for (i = 0; i < n; ++i)
	{
		rdw t = 0;
		for (j = 0; j < m; ++j)
		{
			t += (rdw)a[i] * b[j] + c[i + j];
			c[i + j] = (word)t;
			t >>= B_PER_W;
		}
		c[i + m] = (word)t;
	}
}

/* r[m] <- a[n] mod mod[m], bit-serial long division; mod != 0; n*B_PER_W steps */
static void r_mod(word r[], const word a[], size_t n, const word mod[], size_t m)
{
	size_t pos, i;
	word top;
	for (i = 0; i < m; ++i)
		r[i] = 0;
	for (pos = n * B_PER_W; pos--;)
	{
		/* r <- 2 r + bit */
		top = m ? r[m - 1] >> (B_PER_W - 1) : 0;
		for (i = m; i-- > 1;)
			r[i] = (r[i] << 1) | (r[i - 1] >> (B_PER_W - 1));
		if (m)
			r[0] = (r[0] << 1) | (word)r_testbit(a, pos);
		if (top || r_cmp(r, mod, m) >= 0)
			r_sub(r, r, mod, m, 0);
	}
}

/* word j of (x >> s) where x = [m]e, zero beyond the array; s arbitrary */
static word r_shr_word(const word e[], size_t m, size_t j, size_t s)
{
	size_t ws = s / B_PER_W, bs = s % B_PER_W;
	word lo = (j + ws < m && j + ws >= j) ? e[j + ws] : 0;
	word hi = (j + ws + 1 < m && j + ws + 1 > j) ? e[j + ws + 1] : 0;
	return bs ? (lo >> bs) | (hi << (B_PER_W - bs)) : lo;
}

/* word j of (x << s) mod B^m */
static word r_shl_word(const word e[], size_t m, size_t j, size_t s)
{
	size_t ws = s / B_PER_W, bs = s % B_PER_W;
	word hi = (j >= ws && j - ws < m) ? e[j - ws] : 0;
	word lo = (j >= ws + 1 && j - ws - 1 < m) ? e[j - ws - 1] : 0;
	return bs ? (hi << bs) | (lo >> (B_PER_W - bs)) : hi;
}

/* ---- binary polynomials (GF(2)[x]), little-endian bit order ------------------------ */
/* c[n + m] <- a[n] * b[m], bit-serial shift-and-xor */
static void r_pmul(word c[], const word a[], size_t n, const word b[], size_t m)
{
	size_t i, j, k;
	for (i = 0; i < n + m; ++i) c[i] = 0;
	for (i = 0; i < m; ++i)
		for (k = 0; k < B_PER_W; ++k)
			if ((b[i] >> k) & 1)
				for (j = 0; j < n; ++j)
				{
					c[i + j] ^= a[j] << k;
					if (k) c[i + j + 1] ^= a[j] >> (B_PER_W - k);
				}
}

/* degree, or (size_t)-1 for the zero polynomial */
static size_t r_pdeg(const word a[], size_t n)
{
	size_t bits = r_bitsize(a, n);
	return bits - 1;
}

/* r[n] <- a[n] mod b[m] (b != 0), shift-and-xor long division; r holds n words */
static void r_pmod(word r[], const word a[], size_t n, const word b[], size_t m)
{
	size_t db = r_pdeg(b, m), pos, j;
	r_copy(r, a, n);
	for (pos = n * B_PER_W; pos-- > db;)
		if (r_testbit(r, pos))
		{
			size_t s = pos - db;       /* r ^= b << s */
			for (j = 0; j < m; ++j)
			{
				size_t w = s / B_PER_W + j, k = s % B_PER_W;
				if (w < n) r[w] ^= b[j] << k;
				if (k && w + 1 < n) r[w + 1] ^= b[j] >> (B_PER_W - k);
			}
		}
}

#endif /* REF_H */
