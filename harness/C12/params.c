/* C12 (level N, NOT proof): long-term parameter validators of bign and bign96 on the standard sets with one field altered:
   every single-bit alteration of p, a, b, seed, q, yG must be rejected (b is derived from p, a, seed by belt-hash; q is the
   group order; yG is the root b^((p+1)/4) fixed by the standard), and so must yG replaced by p - yG (the other root). */
#include "verif.h"
#include "bee2/crypto/bign.h"
#include "bee2/crypto/bign96.h"
#include "bee2/core/err.h"
#include "bee2/core/mem.h"
#include "harness/ref.h"

void h_params_alter(void)
{
	V_IN(unsigned, sel); V_IN(unsigned, flip);
	V_NATIVE_ONLY({
		static const char* N[4] = { "1.2.112.0.2.0.34.101.45.3.1", "1.2.112.0.2.0.34.101.45.3.2", "1.2.112.0.2.0.34.101.45.3.3", "1.2.112.0.2.0.34.101.45.3.0" };
		bign_params P[1], X[1]; unsigned c = sel % 4, field = (sel / 4) % 7; size_t no, i; octet bit = (octet)(1 << (flip % 8)); err_t e;
		int is96 = c == 3;
		V_ASSERT((is96 ? bign96ParamsStd(P, N[c]) : bignParamsStd(P, N[c])) == ERR_OK, "standard parameters load");
		if ((sel >> 8) % 8 == 0) V_ASSERT((is96 ? bign96ParamsVal(P) : bignParamsVal(P)) == ERR_OK, "standard parameters validate");
		no = is96 ? 24 : P->l / 4;
		memcpy(X, P, sizeof(P));
		switch (field)
		{
		case 0: X->p[(flip / 8) % no] ^= bit; break;
		case 1: X->a[(flip / 8) % no] ^= bit; break;
		case 2: X->b[(flip / 8) % no] ^= bit; break;
		case 3: X->seed[(flip / 8) % 8] ^= bit; break;
		case 4: X->q[(flip / 8) % no] ^= bit; break;
		case 5: X->yG[(flip / 8) % no] ^= bit; break;
		case 6: { word p[8], y[8], t[8]; size_t n = no / O_PER_W;          /* yG <- p - yG */
			for (i = 0; i < n; ++i) { size_t j; p[i] = y[i] = 0; for (j = 0; j < O_PER_W; ++j) p[i] |= (word)P->p[i * O_PER_W + j] << (8 * j), y[i] |= (word)P->yG[i * O_PER_W + j] << (8 * j); }
			r_sub(t, p, y, n, 0);
			for (i = 0; i < no; ++i) X->yG[i] = (octet)(t[i / O_PER_W] >> (8 * (i % O_PER_W))); break; }
		}
		e = is96 ? bign96ParamsVal(X) : bignParamsVal(X);
		V_ASSERT(e != ERR_OK, "parameters with one altered field (or the other square root as base point) are rejected");
	})
	(void)sel; (void)flip;
	V_CANARY("params_alter");
}
