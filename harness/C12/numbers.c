/* C12 groups numbers.*: primality and irreducibility validators on exhaustive windows
   (level X: complete enumeration of a finite window natively, not a contract) and on
   generated 64-bit values against a deterministic Miller-Rabin oracle (level N).
     - priIsPrimeW, priIsPrime, priRMTest, priNextPrimeW, priNextPrime on every a < 2^18, on the
       windows below 2^32 and 2^64 ... and on Carmichael numbers / strong pseudoprimes;
     - ppIsIrred on every polynomial of degree <= 13 against trial division. */
#include "verif.h"
#include "bee2/math/pri.h"
#include "bee2/math/pp.h"
#include "bee2/math/ww.h"
#include "harness/ref.h"

#ifdef VERIF_NATIVE
static u64 mulmod(u64 a, u64 b, u64 m) { return (u64)((unsigned __int128)a * b % m); }
static u64 powmod(u64 a, u64 e, u64 m) { u64 r = 1; a %= m; while (e) { if (e & 1) r = mulmod(r, a, m); a = mulmod(a, a, m); e >>= 1; } return r; }
static int oracle_prime(u64 n)
{
	static const u64 bases[12] = { 2, 3, 5, 7, 11, 13, 17, 19, 23, 29, 31, 37 };   /* deterministic below 2^64 */
	u64 d; unsigned s = 0, i, k;
	if (n < 2) return 0;
	for (i = 0; i < 12; ++i) { if (n == bases[i]) return 1; if (n % bases[i] == 0) return 0; }
	d = n - 1; while (!(d & 1)) d >>= 1, ++s;
	for (i = 0; i < 12; ++i)
	{
		u64 x = powmod(bases[i], d, n);
		if (x == 1 || x == n - 1) continue;
		for (k = 1; k < s; ++k) { x = mulmod(x, x, n); if (x == n - 1) break; }
		if (k >= s) return 0;
	}
	return 1;
}
static unsigned bitlen64(u64 a) { unsigned l = 0; while (a) ++l, a >>= 1; return l; }
static void check_one(u64 a, void** st, unsigned long* bad)
{
	void* stack;
	word w[1], p[1]; int truth = oracle_prime(a), ok; u64 q, lim;
	w[0] = (word)a;
	stack = st[0];
	if ((int)priIsPrimeW((word)a, stack) != truth) { if (*bad < 5) printf("priIsPrimeW(%llu) != %d\n", (unsigned long long)a, truth); ++*bad; }
	stack = st[1];
	if ((int)priIsPrime(w, 1, stack) != truth) { if (*bad < 5) printf("priIsPrime(%llu) != %d\n", (unsigned long long)a, truth); ++*bad; }
	stack = st[2];
	if (a >= 3 && (a & 1) && truth && !priRMTest(w, 1, 8, stack)) { if (*bad < 5) printf("priRMTest rejects the prime %llu\n", (unsigned long long)a); ++*bad; }
	/* next prime: least odd prime in [a, 2^l) */
	if (a >= 1)
	{
		unsigned l = bitlen64(a);
		stack = st[3];
		lim = l == 64 ? 0 : (u64)1 << l;
		for (q = a | 1; (lim == 0 ? q >= a : q < lim) && !oracle_prime(q); q += 2) if (q + 2 < q) break;
		ok = (lim == 0 ? (q >= a && oracle_prime(q)) : q < lim);
		if ((int)priNextPrimeW(p, (word)a, stack) != ok || (ok && p[0] != (word)q))
		{ if (*bad < 5) printf("priNextPrimeW(%llu): expected %s %llu\n", (unsigned long long)a, ok ? "TRUE" : "FALSE", (unsigned long long)q); ++*bad; }
	}
}
#endif

/* every function on a scratch stack of exactly its own f_deep() octets */
#define STACKS void* stack[4]; stack[0] = v_alloc(priIsPrimeW_deep()); stack[1] = v_alloc(priIsPrime_deep(1)); \
	stack[2] = v_alloc(priRMTest_deep(1)); stack[3] = v_alloc(priNextPrimeW_deep())

void h_primes_window(void)
{
#ifdef VERIF_NATIVE
	static const u64 special[] = { 561, 1105, 1729, 2465, 2821, 6601, 8911, 41041, 825265, 321197185ull, 2047, 3277, 4033, 4681, 8321,
		3215031751ull, 4759123141ull, 1122004669633ull, 2152302898747ull, 3474749660383ull, 341550071728321ull, 3825123056546413051ull,
		18446744073709551557ull, 18446744073709551556ull, 18446744073709551615ull };
	unsigned long bad = 0, total = 0; u64 a; size_t i;
	{
		STACKS;
		for (a = 0; a < ((u64)1 << 18); ++a, ++total) check_one(a, stack, &bad);
		for (a = ((u64)1 << 32) - 3000; a < ((u64)1 << 32) + 3000; ++a, ++total) check_one(a, stack, &bad);
		for (a = 0; a < 3000; ++a, ++total) check_one(0xFFFFFFFFFFFFFFFFull - a, stack, &bad);
		for (i = 0; i < sizeof(special) / sizeof(special[0]); ++i, ++total) check_one(special[i], stack, &bad);
	}
	printf("primes window: %lu values, %lu mismatches\n", total, bad);
	V_ASSERT(bad == 0, "priIsPrimeW / priIsPrime / priRMTest / priNextPrimeW == exact primality on the enumerated windows");
#endif
	V_CANARY("primes_window");
}

void h_primes_random(void)
{
	V_IN(u64, a);
	V_NATIVE_ONLY({ unsigned long bad = 0;
		{ STACKS; check_one(a, stack, &bad); check_one(a | 1, stack, &bad); }
		V_ASSERT(bad == 0, "primality validators == deterministic Miller-Rabin oracle on a generated 64-bit value"); })
	(void)a;
	V_CANARY("primes_random");
}

void h_irred_window(void)
{
#ifdef VERIF_NATIVE
	unsigned long bad = 0, total = 0; word a[1], d[1], r[1]; u64 f, g;
	V_ALLOC(octet, stack, ppIsIrred_deep(1));
	for (f = 2; f < ((u64)1 << 14); ++f, ++total)
	{
		int irr = 1; unsigned df = bitlen64(f) - 1;
		for (g = 2; irr && g < ((u64)1 << (df / 2 + 1)); ++g)
		{
			a[0] = (word)f, d[0] = (word)g;
			r_pmod(r, a, 1, d, 1);
			if (r[0] == 0) irr = 0;
		}
		if (df == 0) irr = 0;
		a[0] = (word)f;
		if ((int)ppIsIrred(a, 1, stack) != irr) { if (bad < 5) printf("ppIsIrred(0x%llx) != %d\n", (unsigned long long)f, irr); ++bad; }
	}
	printf("irreducibility window: %lu polynomials, %lu mismatches\n", total, bad);
	V_ASSERT(bad == 0, "ppIsIrred == trial division for every polynomial of degree 1..13");
#endif
	V_CANARY("irred_window");
}

/* priNextPrime (the multi-word entry) on one- and two-word values with every kind of factor base: all a < 2^13 x
   base_count in {0, 1, 3, 10, 100, priBaseSize()}, n = 1 and n = 2 (zero high word), trials = SIZE_MAX, on a stack of
   exactly priNextPrime_deep(n, base_count) octets */
void h_nextprime_window(void)
{
#ifdef VERIF_NATIVE
	static const size_t BC[6] = { 0, 1, 3, 10, 100, (size_t)-1 };
	unsigned long bad = 0, total = 0; u64 a, qq, lim; size_t bi, n;
	for (bi = 0; bi < 6; ++bi)
		for (n = 1; n <= 2; ++n)
		{
			size_t bc = BC[bi] == (size_t)-1 ? priBaseSize() : BC[bi];
			void* stack = v_alloc(priNextPrime_deep(n, bc));
			for (a = 1; a < (1u << 13); ++a, ++total)
			{
				word aw[2], p[2]; unsigned l = bitlen64(a); int ok, got;
				aw[0] = (word)a, aw[1] = 0; p[0] = p[1] = 0;
				lim = (u64)1 << l;
				for (qq = a | 1; qq < lim && !oracle_prime(qq); qq += 2);
				ok = qq < lim;
				got = priNextPrime(p, aw, n, SIZE_MAX, bc, 8, stack);
				if (got != ok || (ok && (p[0] != (word)qq || (n == 2 && p[1] != 0))))
				{ if (bad < 5) printf("priNextPrime(a=%llu, n=%u, base_count=%u): expected %s %llu, got %d %llu\n", (unsigned long long)a, (unsigned)n, (unsigned)bc, ok ? "TRUE" : "FALSE", (unsigned long long)qq, got, (unsigned long long)p[0]); ++bad; }
			}
		}
	printf("next-prime window: %lu cases, %lu mismatches\n", total, bad);
	V_ASSERT(bad == 0, "priNextPrime == least odd prime in [a, 2^l) or FALSE, for every factor-base size");
#endif
	V_CANARY("nextprime_window");
}
