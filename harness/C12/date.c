/* C12 group date: tmDateIsValid / tmDateIsValid2 against the Gregorian calendar rule and
   "six octets are decimal digits", for all 2^192 (y, m, d) and all 2^48 octet strings. */
#include "verif.h"
#include "bee2/core/tm.h"

static int leap(size_t y) { return (y % 4 == 0 && y % 100 != 0) || y % 400 == 0; }
static int gregorian(size_t y, size_t m, size_t d)
{
	static const unsigned char dim[13] = { 0, 31, 28, 31, 30, 31, 30, 31, 31, 30, 31, 30, 31 };
	if (y < 1583 || m < 1 || m > 12 || d < 1)
		return 0;
	return d <= (size_t)dim[m] + (m == 2 && leap(y) ? 1 : 0);
}

void h_date(void)
{
	V_IN(size_t, y); V_IN(size_t, m); V_IN(size_t, d);
	V_IN_ARR(octet, date, 6);
	int digits, e2;
	V_TWEAK(m, if (v_rand() % 2) m %= 14); V_TWEAK(d, if (v_rand() % 2) d %= 33); V_TWEAK(y, if (v_rand() % 2) y = 1500 + y % 1000);
	V_TWEAK(date, if (v_rand() % 4) { int i; for (i = 0; i < 6; ++i) if (v_rand() % 8) date[i] %= 10; if (v_rand() % 2) date[2] %= 2; if (v_rand() % 2) date[4] %= 4; });
#ifndef DATE2_ONLY
	V_ASSERT(tmDateIsValid(y, m, d) == gregorian(y, m, d), "tmDateIsValid == Gregorian calendar rule (year >= 1583)");
#endif
#ifndef DATE1_ONLY
	digits = date[0] <= 9 && date[1] <= 9 && date[2] <= 9 && date[3] <= 9 && date[4] <= 9 && date[5] <= 9;
	e2 = digits && gregorian(2000 + 10 * (size_t)date[0] + date[1], 10 * (size_t)date[2] + date[3], 10 * (size_t)date[4] + date[5]);
	V_ASSERT(tmDateIsValid2(date) == e2, "tmDateIsValid2 == six decimal digits of a Gregorian date 20YY-MM-DD");
#endif
	V_CANARY("date");
}
