/* C20 group "history": the history rules as an inductive invariant of an unbounded
   event loop around the real btokPwdTransition (in-source loop contract; the loop is
   harness text, the callee is repository text).  Base and step are checked for all
   states and events; the history length is unbounded. */
#include "verif.h"
#include "bee2/crypto/btok.h"
#define MON_ASSERT(c, msg) __CPROVER_assert(c, msg)
#include "harness/C20/monitor.h"

int nondet_int(void);
unsigned char nondet_uchar(void);

void h_history(void)
{
	btok_pwd_state s;
	unsigned char pin_init = nondet_uchar();
	__CPROVER_assume(pin_init <= 15);
	s.pin = (btok_pin_state)pin_init;
	s.auth = auth_none;                 /* a session starts without authentication */
	mon_init(pin_init);
	while (nondet_int())
	__CPROVER_assigns(s, g_bad_run, g_need_can, g_puk_run, g_last_ok, g_dead)
	__CPROVER_loop_invariant(MON_INV((unsigned)s.pin, (unsigned)s.auth))
	{
		int ev = nondet_int();
		unsigned p0 = s.pin, a0 = s.auth;
		bool_t ret = btokPwdTransition(&s, (btok_pwd_event)ev);
		mon_step(ev, ret, p0, a0, (unsigned)s.pin, (unsigned)s.auth);
	}
	__CPROVER_assert(0, "canary history");
}
