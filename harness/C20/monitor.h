/* monitor.h -- ghost state and history rules of C20, shared by the inductive and the
   bounded history harness.  The includer defines MON_ASSERT(cond, msg). */
#include "harness/C20/spec_pwd.h"

static unsigned g_bad_run;   /* consecutive accepted wrong PINs since the last reset */
static unsigned g_need_can;  /* a second wrong PIN happened and no correct CAN since */
static unsigned g_puk_run;   /* consecutive wrong PUKs on a blocked PIN */
static unsigned g_last_ok;   /* status of the most recent accepted *_ok event */
static unsigned g_dead;      /* PIN was terminated (ten wrong PUKs) at some point */

#define MON_INV(p, a) \
	(REACH(p, a) && g_bad_run <= 3 && g_puk_run <= 10 && \
	 g_bad_run <= 3 - RANK(p) && \
	 (BLOCKED(p) ? g_puk_run <= 10 - PUKRANK(p) : g_puk_run == 0) && \
	 ((p) != S_PINS || g_need_can) && (!g_need_can || (p) == S_PINS || (p) == S_PIND) && \
	 ((a) == A_NONE || (a) == g_last_ok) && g_last_ok <= 3 && g_need_can <= 1 && g_dead <= 1 && \
	 (!g_dead || (p) == S_PUK0) && ((p) != S_PUK0 || g_dead))

static void mon_init(unsigned pin_init)
{
	g_bad_run = 0;
	g_need_can = (pin_init == S_PINS);
	g_puk_run = 0;
	g_last_ok = A_NONE;
	g_dead = (pin_init == S_PUK0);
}

static void mon_step(int ev, int ret, unsigned p0, unsigned a0, unsigned p1, unsigned a1)
{
	/* every single-step rule, from every state the history can reach */
	MON_ASSERT(RULES_STEP(ev, ret, p0, a0, p1, a1), "C20 history: single-step rules");
	if (!ret)
		return;
	/* a correct CAN between the second and the last PIN attempt */
	if (ev == E_PIN_OK || ev == E_PIN_BAD)
		MON_ASSERT(!g_need_can, "C20 history: PIN attempt after the second wrong one needs a correct CAN first");
	/* never more than three consecutive wrong PINs without the PIN becoming blocked */
	if (ev == E_PIN_BAD)
	{
		++g_bad_run;
		MON_ASSERT(g_bad_run <= 3, "C20 history: at most three consecutive wrong PINs");
		MON_ASSERT(g_bad_run < 3 || BLOCKED(p1), "C20 history: third consecutive wrong PIN blocks the PIN");
		if (RANK(p0) == 2)
			g_need_can = 1;
	}
	if (ev == E_CAN_OK)
		g_need_can = 0;
	if (ev == E_PIN_OK)
		g_bad_run = 0;
	/* resets that only a correct PUK legitimises */
	if (ev == E_PIN_ACT || (BLOCKED(p0) && !BLOCKED(p1)))
	{
		MON_ASSERT(ev == E_PUK_OK || a0 == A_PUK, "C20 history: PIN counters are reset only on/under a correct PUK");
		g_bad_run = 0, g_need_can = 0;
	}
	/* ten wrong PUKs terminate the PIN for good */
	if (ev == E_PUK_BAD && BLOCKED(p0))
	{
		if (g_puk_run < 10)
			++g_puk_run;
		MON_ASSERT(g_puk_run < 10 || p1 == S_PUK0, "C20 history: ten consecutive wrong PUKs terminate the PIN");
	}
	if ((ev == E_PUK_OK || !BLOCKED(p1)) && p1 != S_PUK0)
		g_puk_run = 0;
	if (p1 == S_PUK0)
		g_dead = 1;
	MON_ASSERT(!g_dead || p1 == S_PUK0, "C20 history: terminated PIN never comes back");
	/* status is at most that of the most recent successful password */
	if (ev == E_PIN_OK) g_last_ok = A_PIN;
	if (ev == E_CAN_OK) g_last_ok = A_CAN;
	if (ev == E_PUK_OK) g_last_ok = A_PUK;
	MON_ASSERT(a1 == A_NONE || a1 == g_last_ok, "C20 history: status is that of the most recent successful password");
}
