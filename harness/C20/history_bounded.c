/* C20 group "history_bounded": the same monitor over explicit event paths of up to
   HLEN events from every persistent PIN state.  Bounded stand-in whose only purpose is
   to turn a failed inductive step into a concrete event path that replays natively. */
#include "verif.h"
#include "bee2/crypto/btok.h"
#define MON_ASSERT(c, msg) V_ASSERT(c, msg)
#include "harness/C20/monitor.h"

#ifndef HLEN
#define HLEN 12
#endif

void h_history_bounded(void)
{
	V_IN(unsigned char, pin_init);
	V_IN(unsigned char, n);
	V_IN_ARR(unsigned char, ev, HLEN);
	btok_pwd_state s;
	unsigned i;
	V_ASSUME(pin_init <= 15 && n <= HLEN);
	s.pin = (btok_pin_state)pin_init;
	s.auth = auth_none;
	mon_init(pin_init);
	for (i = 0; i < HLEN; ++i)
	{
		unsigned p0 = s.pin, a0 = s.auth;
		bool_t ret;
		if (i >= n)
			break;
		V_NATIVE_ONLY(ev[i] %= 9;)
		V_ASSUME(ev[i] <= 8);
		ret = btokPwdTransition(&s, (btok_pwd_event)ev[i]);
		mon_step(ev[i], ret, p0, a0, (unsigned)s.pin, (unsigned)s.auth);
	}
	V_CANARY("history_bounded");
}
