/* C20 group "step": btokPwdTransition against its contract, for every
   (pin, auth, event) including out-of-range event encodings. */
#include "verif.h"
#include "bee2/crypto/btok.h"
#include "harness/C20/spec_pwd.h"
#ifdef VERIF_CBMC
#include "contracts/btok_pwd.h"
#endif

void h_step(void)
{
	V_IN(unsigned char, pin);
	V_IN(unsigned char, auth);
	V_IN(int, event);
	btok_pwd_state s;
	bool_t ret;
	V_ASSUME(REACH(pin, auth));
	/* encodings the spec relies on */
	V_ASSERT(puk0 == S_PUK0 && pin0 == S_PIN0 && pin1 == S_PIN1 && pind == S_PIND &&
		pins == S_PINS && pin2 == S_PIN2 && pin3 == S_PIN3, "pin encodings");
	V_ASSERT(auth_none == A_NONE && auth_pin == A_PIN && auth_can == A_CAN &&
		auth_puk == A_PUK, "auth encodings");
	V_ASSERT(pin_ok == E_PIN_OK && pin_bad == E_PIN_BAD && pin_deactivate == E_PIN_DEACT &&
		pin_activate == E_PIN_ACT && can_ok == E_CAN_OK && can_bad == E_CAN_BAD &&
		puk_ok == E_PUK_OK && puk_bad == E_PUK_BAD && auth_close == E_AUTH_CLOSE,
		"event encodings");
	s.pin = (btok_pin_state)pin;
	s.auth = (btok_auth_state)auth;
	ret = btokPwdTransition(&s, (btok_pwd_event)event);
#define CHK(rule, msg) V_ASSERT(rule, "C20 step: " msg)
	CHK(REACH((unsigned)s.pin, (unsigned)s.auth), "reachable-state invariant (PIN status only with pin3) is preserved");
	CHK(RULE_RET_BOOL(ret), "result is TRUE or FALSE");
	CHK(RULE_REJECT_KEEPS(ret, pin, auth, (unsigned)s.pin, (unsigned)s.auth), "rejected event leaves the state unchanged");
	CHK(RULE_ENC_VALID((unsigned)s.pin, (unsigned)s.auth), "successor state is a valid encoding");
	CHK(RULE_BAD_EVENT(event, ret), "unknown event is rejected");
	CHK(RULE_PIN_ATTEMPT(event, ret, pin), "PIN attempt accepted only in pin1/pin2/pin3");
	CHK(RULE_PIN_BAD(event, ret, pin, (unsigned)s.pin), "wrong PIN consumes an attempt");
	CHK(RULE_SUSPENDED(event, ret, pin, auth, (unsigned)s.pin), "suspended PIN resumes only on correct CAN (or under PUK)");
	CHK(RULE_UNBLOCK(event, pin, auth, (unsigned)s.pin), "blocked PIN is unblocked only by a correct PUK");
	CHK(RULE_PUK_COUNT(event, pin, (unsigned)s.pin), "PUK attempt counter only decreases, by one, on a wrong PUK");
	CHK(RULE_PUK_BAD(event, ret, pin, (unsigned)s.pin), "wrong PUK consumes a PUK attempt");
	CHK(RULE_TERMINATED(pin, (unsigned)s.pin), "terminated PIN (ten wrong PUKs) stays terminated");
	CHK(RULE_DEACTIVATED(event, pin, auth, (unsigned)s.pin), "deactivated state is left only by activation under PUK authentication");
	CHK(RULE_AUTH_GAIN(event, ret, auth, (unsigned)s.auth), "status gained only from the matching successful password");
	CHK(RULE_AUTH_LATEST(event, ret, (unsigned)s.auth), "accepted successful password becomes the status");
	V_CANARY("step");
}
