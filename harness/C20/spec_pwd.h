/*
 * spec_pwd.h -- the rules of property C20 as predicates over one step
 * (pin0, auth0) --event--> (ret, pin1, auth1) plus monitor (ghost) state.
 * Written from the property statement and the semantics paragraph of btok.h
 * (pinN: N attempts left; pins: CAN needed; pukN: N PUK attempts left, puk0 terminal;
 * pind: deactivated).  Not a copy of the transition table.
 */
#ifndef SPEC_PWD_H
#define SPEC_PWD_H

/* numeric encodings as in btok.h (asserted equal to the enum in the harness) */
#define S_PUK0 0
#define S_PIN0 10
#define S_PIN1 11
#define S_PIND 12
#define S_PINS 13
#define S_PIN2 14
#define S_PIN3 15
#define A_NONE 0
#define A_PIN 1
#define A_CAN 2
#define A_PUK 3
#define E_PIN_OK 0
#define E_PIN_BAD 1
#define E_PIN_DEACT 2
#define E_PIN_ACT 3
#define E_CAN_OK 4
#define E_CAN_BAD 5
#define E_PUK_OK 6
#define E_PUK_BAD 7
#define E_AUTH_CLOSE 8

/* PIN attempts still possible before the PIN is blocked */
#define RANK(p) ((p) == S_PIN3 ? 3 : (p) == S_PIN2 ? 2 : ((p) == S_PINS || (p) == S_PIN1) ? 1 : 0)
/* blocked: pin0 and puk0..puk9 */
#define BLOCKED(p) ((p) <= S_PIN0)
/* PUK attempts left while blocked */
#define PUKRANK(p) ((p) == S_PIN0 ? 10 : (p))

/* states reachable in a session that starts with no authentication: PIN status is
   held only while the PIN is operational (it is granted together with pin3 and is
   dropped by every event that lowers the PIN state).  Preserved by every step
   (proved: it is part of the step contract's postcondition). */
#define REACH(p, a) ((p) <= 15 && (a) <= 3 && ((a) != A_PIN || (p) == S_PIN3))

/* rules that speak about a single step */
#define RULE_RET_BOOL(ret) ((ret) == 0 || (ret) == 1)
#define RULE_REJECT_KEEPS(ret, p0, a0, p1, a1) ((ret) != 0 || ((p1) == (p0) && (a1) == (a0)))
#define RULE_ENC_VALID(p1, a1) ((p1) <= 15 && (a1) <= 3)
#define RULE_BAD_EVENT(ev, ret) (((ev) >= 0 && (ev) <= 8) || (ret) == 0)
/* a PIN attempt is only accepted while attempts are left and no CAN is pending */
#define RULE_PIN_ATTEMPT(ev, ret, p0) \
	(!(((ev) == E_PIN_OK || (ev) == E_PIN_BAD) && (ret)) || \
		((p0) == S_PIN1 || (p0) == S_PIN2 || (p0) == S_PIN3))
/* a wrong PIN consumes an attempt: rank decreases by one, or the PIN needs CAN */
#define RULE_PIN_BAD(ev, ret, p0, p1) \
	(!((ev) == E_PIN_BAD && (ret)) || \
		(RANK(p1) < RANK(p0) || ((p0) == S_PIN2 && (p1) == S_PINS)))
/* suspended state is left only by a correct CAN or under PUK authentication */
#define RULE_SUSPENDED(ev, ret, p0, a0, p1) \
	((p0) != S_PINS || (p1) == S_PINS || (ev) == E_CAN_OK || (a0) == A_PUK)
/* a blocked PIN is unblocked only by a correct PUK (event, or status in force) */
#define RULE_UNBLOCK(ev, p0, a0, p1) \
	(!BLOCKED(p0) || BLOCKED(p1) || (ev) == E_PUK_OK || (a0) == A_PUK)
/* while blocked, only a wrong PUK lowers the number of PUK attempts, by one */
#define RULE_PUK_COUNT(ev, p0, p1) \
	(!(BLOCKED(p0) && BLOCKED(p1)) || (p1) == (p0) || \
		((ev) == E_PUK_BAD && PUKRANK(p1) + 1 == PUKRANK(p0)))
/* a wrong PUK on a blocked, not yet terminated PIN consumes a PUK attempt */
#define RULE_PUK_BAD(ev, ret, p0, p1) \
	(!((ev) == E_PUK_BAD && (ret) && BLOCKED(p0) && (p0) != S_PUK0) || \
		(BLOCKED(p1) && PUKRANK(p1) + 1 == PUKRANK(p0)))
/* terminated is permanent */
#define RULE_TERMINATED(p0, p1) ((p0) != S_PUK0 || (p1) == S_PUK0)
/* deactivated is left only through activation under PUK authentication */
#define RULE_DEACTIVATED(ev, p0, a0, p1) \
	((p0) != S_PIND || (p1) == S_PIND || ((ev) == E_PIN_ACT && (a0) == A_PUK))
/* a status is gained only from the matching successful password */
#define RULE_AUTH_GAIN(ev, ret, a0, a1) \
	((a1) == (a0) || (a1) == A_NONE || \
		((ret) && (((a1) == A_PIN && (ev) == E_PIN_OK) || \
			((a1) == A_CAN && (ev) == E_CAN_OK) || ((a1) == A_PUK && (ev) == E_PUK_OK))))
/* an accepted successful password becomes the status (and replaces an older one) */
#define RULE_AUTH_LATEST(ev, ret, a1) \
	(!(ret) || \
		(((ev) != E_PIN_OK || (a1) == A_PIN) && ((ev) != E_CAN_OK || (a1) == A_CAN) && \
		 ((ev) != E_PUK_OK || (a1) == A_PUK)))

#define RULES_STEP(ev, ret, p0, a0, p1, a1) \
	(REACH(p1, a1) && RULE_RET_BOOL(ret) && RULE_REJECT_KEEPS(ret, p0, a0, p1, a1) && RULE_ENC_VALID(p1, a1) && \
	 RULE_BAD_EVENT(ev, ret) && RULE_PIN_ATTEMPT(ev, ret, p0) && RULE_PIN_BAD(ev, ret, p0, p1) && \
	 RULE_SUSPENDED(ev, ret, p0, a0, p1) && RULE_UNBLOCK(ev, p0, a0, p1) && \
	 RULE_PUK_COUNT(ev, p0, p1) && RULE_PUK_BAD(ev, ret, p0, p1) && RULE_TERMINATED(p0, p1) && \
	 RULE_DEACTIVATED(ev, p0, a0, p1) && RULE_AUTH_GAIN(ev, ret, a0, a1) && \
	 RULE_AUTH_LATEST(ev, ret, a1))

#endif
