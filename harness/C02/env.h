/* C02: environment of the high-level bign functions for the flow contracts.
   The REAL bodies of bignSign, bignVerify, ... run on a state of exactly bignStart_keep(l, deep) octets; the
   layers below them are replaced by contract stubs (stubs/bign_env.c): each stub checks the callee's
   preconditions (pointer identity of the modulus / curve, ranges, stack depth inside the state), records its
   arguments in the ghost structure E and returns nondeterministic results satisfying the callee's
   postcondition.  The harness then states the function's contract over E. */
#ifndef C02_ENV_H
#define C02_ENV_H
#include "bee2/crypto/bign.h"
#include "bee2/math/ec.h"
#include "bee2/math/qr.h"

#ifndef L
#define L 128
#endif
#define NO (L / 4)
#define NW (NO / O_PER_W)
#define ENV_F_DEEP 64
#define ENV_EC_D 3
#define ENV_EC_DEEP 256
#define ENV_MAX 10
#define SNAP 64

typedef struct
{
	void* blob; size_t blob_size; int created, closed, close_bad;
	ec_o* ec; qr_o* f; int start_ret; const word* base; const word* order; word q[NW]; word base_val[2 * NW];
	int nfrom; const octet* from_src[ENV_MAX]; word* from_dst[ENV_MAX]; int from_ret[ENV_MAX]; word from_val[ENV_MAX][NW];
	int nto; octet* to_dst[ENV_MAX]; const word* to_src[ENV_MAX]; octet to_val[ENV_MAX][NO]; word to_in[ENV_MAX][NW];
	int nrand; word* rand_dst; const word* rand_mod; size_t rand_n; gen_i rand_rng; void* rand_state; int rand_ret; word rand_val[NW];
	int nmul; word* mul_b; const word* mul_a; const void* mul_ec; size_t mul_m; int mul_ret; word mul_d[NW]; word mul_aval[2 * NW]; word mul_out[2 * NW];
	word* mul2_b; const word* mul2_a; const void* mul2_ec; size_t mul2_m; int mul2_ret; word mul2_d[NW]; word mul2_aval[2 * NW]; word mul2_out[2 * NW];   /* second ecMulA call (key transport) */
	int naddmul; word* am_b; const void* am_ec; size_t am_k; const word* am_pt[3]; word am_ptval[3][2 * NW]; word am_d[3][NW + 1]; size_t am_m[3]; int am_ret; word am_out[2 * NW];
	int nison; int ison_nfrom; const word* ison_a; word ison_val[2 * NW]; int ison_ret;
	int hid; const void* h_state[ENV_MAX]; word h_id[ENV_MAX]; word h_cnt[ENV_MAX];
	int nwbl; const void* wbl_key; size_t wbl_len; octet wbl_keyval[32]; octet wbl_in[3][64]; octet wbl_out[3][64]; size_t wbl_count[3]; const void* wbl_ptr[3];
	int nh; int h_kind[ENV_MAX]; const void* h_ptr[ENV_MAX]; size_t h_len[ENV_MAX]; octet h_val[ENV_MAX][SNAP]; int h_ret; octet h_out[32]; octet h_out4[32];
	int nzmul; word zmul_a[NW]; size_t zmul_n; word zmul_b[NW]; size_t zmul_m; word zmul_out[2 * NW];
	int nzmod; word zmod_a[2 * NW + 1]; size_t zmod_n; const word* zmod_mod; size_t zmod_m; word zmod_out[NW];
	int nam; int am_kind[4]; word amod_a[4][NW]; word amod_b[4][NW]; const word* amod_mod[4]; word amod_out[4][NW];   /* zzAddMod (+1) / zzSubMod (-1) */
	int nsqr; word sqr_in[2][NW]; word sqr_out[2][NW]; int nfmul; word fmul_a[NW]; word fmul_b[NW]; word fmul_out[NW];   /* field squarings / product */
	int npow; word pow_a[NW]; word pow_e[NW]; size_t pow_m; word pow_out[NW]; const word* A; const word* B; word A_val[NW]; word B_val[NW]; word p[NW];
	int nd2; const void* d2_buf1; const void* d2_buf2; size_t d2_count; octet d2_in1[64]; octet d2_in2[16]; octet d2_out1[64]; octet d2_out2[16];   /* belt-kwp decryption */
	int nneg; word neg_in[NW]; word neg_out[NW]; const word* neg_mod;   /* zzNegMod */
	int noid; const octet* oid_buf; size_t oid_count; size_t oid_ret;
} env_t;
extern env_t E;
enum { H_START = 1, H_STEPH, H_G, H_G2, H_V, H_V2 };
extern void rng_stub(void* buf, size_t count, void* state);
#endif
