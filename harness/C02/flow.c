/* C02 flow contracts: the real bodies of the high-level bign functions against the contracts of the layers
   below them (stubs/bign_env.c).  What is decided: every guard on the way to ERR_OK (ranges of d, k, s1, the
   hash reduced modulo q, import checks of the public key), the identity of the modulus / curve / base point
   handed to each callee, the scalars and points handed to the curve arithmetic, the belt-hash transcript,
   the value of s1, the exact size of the state (every callee stack must fit), and that the state is closed
   exactly once on every path.  What is assumed: the contracts of the replaced callees (see the plan). */
#include "verif.h"
#include "harness/C02/env.h"
#include "bee2/core/err.h"
#include "bee2/core/util.h"
#include "crypto/bign/bign_lcl.h"
#include "harness/ref.h"

#define OIDMAX 12
#ifndef HAVE_T
#define HAVE_T 1
#endif
static void ld(word* w, const octet* o, size_t no) { size_t i; for (i = 0; i < no / O_PER_W; ++i) { size_t j; w[i] = 0; for (j = 0; j < O_PER_W; ++j) w[i] |= (word)o[i * O_PER_W + j] << (8 * j); } }
static int eqw(const word* a, const word* b, size_t n) { size_t i; int r = 1; for (i = 0; i < n; ++i) r &= a[i] == b[i]; return r; }
static int eqo(const octet* a, const octet* b, size_t n) { size_t i; int r = 1; for (i = 0; i < n; ++i) r &= a[i] == b[i]; return r; }
/* c <- (a + b) mod q, c <- (a - b) mod q for a, b < q */
static void addq(word* c, const word* a, const word* b, const word* q) { word t[NW]; word cy = r_add(c, a, b, NW, 0); if (cy || r_cmp(c, q, NW) >= 0) { r_sub(t, c, q, NW, 0); r_copy(c, t, NW); } }
static void subq(word* c, const word* a, const word* b, const word* q) { word t[NW]; if (r_sub(c, a, b, NW, 0)) { r_add(t, c, q, NW, 0); r_copy(c, t, NW); } }
static void redq(word* h, const word* q) { word t[NW]; if (r_cmp(h, q, NW) >= 0) { r_sub(t, h, q, NW, 0); r_copy(h, t, NW); } }

#define PROLOGUE0 \
	V_IN(bign_params, params); word q[NW]; int operable; \
	V_ASSUME(params.l == L); \
	operable = bignIsOperable(&params); ld(q, params.q, NO)
#define PROLOGUE \
	PROLOGUE0; V_IN_ARR(octet, oid, OIDMAX); V_IN(size_t, oid_len); V_IN_ARR(octet, hash, NO); \
	V_ASSUME(oid_len <= OIDMAX)
#define STATE_RULES(code) \
	V_ASSERT(!E.created || E.closed, "the state is closed on every path"); \
	V_ASSERT(!E.close_bad, "the state is closed once"); \
	V_ASSERT((code) == ERR_OK ? operable : 1, "ERR_OK only for operable parameters")
#define TRANSCRIPT(last_kind, last_ptr) \
	(E.nh == 5 && E.h_kind[0] == H_START && \
	 E.h_kind[1] == H_STEPH && E.h_ptr[1] == (const void*)oid && E.h_len[1] == oid_len && \
	 E.h_kind[2] == H_STEPH && E.h_len[2] == NO && E.nto >= 1 && eqo(E.h_val[2], E.to_val[0], NO) && \
	 E.h_kind[3] == H_STEPH && E.h_ptr[3] == (const void*)hash && E.h_len[3] == NO && \
	 E.h_kind[4] == (last_kind) && E.h_ptr[4] == (const void*)(last_ptr) && E.h_len[4] == NO / 2)

void h_verify(void)
{
	PROLOGUE;
	V_IN_ARR(octet, sig, NO + NO / 2); V_IN_ARR(octet, pubkey, 2 * NO);
	word s1[NW], H[NW], s0[NW / 2 + 1], t[NW]; err_t code; int fav, i;
	code = bignVerify(&params, oid, oid_len, hash, sig, pubkey);
	STATE_RULES(code);
	ld(s1, sig + NO / 2, NO); ld(H, hash, NO); ld(s0, sig, NO / 2); s0[NW / 2] = 1;
	fav = operable && E.noid == 1 && E.oid_ret != SIZE_MAX && E.created && E.start_ret == 1 &&
		E.nfrom == 2 && E.from_ret[0] && E.from_ret[1] && r_cmp(s1, q, NW) < 0 &&
		E.naddmul == 1 && E.am_ret && E.nh == 5 && E.h_ret;
	V_ASSERT(code == ERR_OK ? fav : 1, "bignVerify accepts only if every check of the verification equation passed (incl. s1 < q)");
	V_ASSERT(code != ERR_OK ? !fav : 1, "bignVerify accepts whenever every check passed");
	if (code == ERR_OK)
	{
		V_ASSERT(E.oid_buf == oid && E.oid_count == oid_len, "the identifier checked is the caller's");
		V_ASSERT(E.from_src[0] == pubkey && E.from_src[1] == pubkey + NO, "public key coordinates imported from pubkey, pubkey + no");
		redq(H, q);
		V_ASSERT(E.am_ec == (const void*)E.ec && E.am_pt[0] == E.base && eqw(E.am_ptval[0], E.base_val, 2 * NW), "first point of the sum is the base point");
		V_ASSERT(E.nam == 1 && E.am_kind[0] == 1 && E.amod_mod[0] == E.order && eqw(E.amod_a[0], s1, NW) && eqw(E.amod_b[0], H, NW) &&
			E.am_m[0] == NW && eqw(E.am_d[0], E.amod_out[0], NW), "first scalar is zzAddMod(s1, H mod q, q)");
		V_ASSERT(eqw(E.am_ptval[1], E.from_val[0], NW) && eqw(E.am_ptval[1] + NW, E.from_val[1], NW), "second point of the sum is the imported public key");
		V_ASSERT(E.am_m[1] == NW / 2 + 1 && eqw(E.am_d[1], s0, NW / 2 + 1), "second scalar is s0 + 2^l");
		V_ASSERT(E.nto == 1 && eqw(E.to_in[0], E.am_out, NW), "the x-coordinate of R is exported");
		V_ASSERT(TRANSCRIPT(H_V2, sig), "belt-hash transcript: oid || <R>_2l || H, compared with s0");
	}
	(void)i;
	V_CANARY("flow verify");
}

void h_sign(void)
{
	PROLOGUE;
	V_IN_ARR(octet, privkey, NO); V_IN(int, have_rng); V_IN(size_t, rng_state);
	V_BUF(octet, sig, NO + NO / 2);
	word d[NW], H[NW], s0[NW], t[2 * NW + 1], u[NW]; err_t code; int fav; size_t j; word cy;
	gen_i rng = have_rng ? rng_stub : 0;
	code = bignSign(sig, &params, oid, oid_len, hash, privkey, rng, (void*)rng_state);
	STATE_RULES(code);
	ld(d, privkey, NO); ld(H, hash, NO);
	fav = operable && E.noid == 1 && E.oid_ret != SIZE_MAX && rng != 0 && E.created && E.start_ret == 1 &&
		!r_iszero(d, NW) && r_cmp(d, q, NW) < 0 && E.nrand == 1 && E.rand_ret && E.nmul == 1 && E.mul_ret;
	V_ASSERT(code == ERR_OK ? fav : 1, "bignSign succeeds only with 0 < d < q, a generator and 0 < k < q");
	V_ASSERT(code != ERR_OK ? !fav : 1, "bignSign succeeds whenever its inputs are admissible");
	V_ASSERT(E.nrand == 0 || (E.rand_mod == E.order && E.rand_n == NW && E.rand_rng == rng && E.rand_state == (void*)rng_state),
		"k is drawn modulo q with the caller's generator");
	if (code == ERR_OK)
	{
		V_ASSERT(E.oid_buf == oid && E.oid_count == oid_len, "the identifier checked is the caller's");
		V_ASSERT(E.mul_ec == (const void*)E.ec && E.mul_a == E.base && eqw(E.mul_aval, E.base_val, 2 * NW) && E.mul_m == NW && eqw(E.mul_d, E.rand_val, NW), "R = k G");
		V_ASSERT(E.nto == 1 && eqw(E.to_in[0], E.mul_out, NW), "the x-coordinate of R is exported");
		V_ASSERT(TRANSCRIPT(H_G2, sig), "belt-hash transcript: oid || <R>_2l || H, s0 written to sig");
		for (j = 0; j < NW; ++j) s0[j] = 0;
		ld(s0, sig, NO / 2);
		V_ASSERT(E.nzmul == 1 && E.zmul_n == NW / 2 && E.zmul_m == NW && eqw(E.zmul_a, s0, NW / 2) && eqw(E.zmul_b, d, NW), "s0 * d");
		/* (s0 + 2^l) d = s0 d + d 2^l */
		for (j = 0; j < 2 * NW + 1; ++j) t[j] = j < NW + NW / 2 ? E.zmul_out[j] : 0;
		cy = r_add(t + NW / 2, t + NW / 2, d, NW, 0); t[NW + NW / 2] = cy;
		V_ASSERT(E.nzmod == 1 && E.zmod_n == NW + NW / 2 + 1 && E.zmod_mod == E.order && eqw(E.zmod_a, t, NW + NW / 2 + 1), "(s0 + 2^l) d reduced modulo q");
		redq(H, q);
		ld(u, sig + NO / 2, NO);
		V_ASSERT(E.nam == 2 && E.am_kind[0] == -1 && E.am_kind[1] == -1 && E.amod_mod[0] == E.order && E.amod_mod[1] == E.order &&
			eqw(E.amod_a[0], E.rand_val, NW) && eqw(E.amod_b[0], E.zmod_out, NW) &&
			eqw(E.amod_a[1], E.amod_out[0], NW) && eqw(E.amod_b[1], H, NW) && eqw(u, E.amod_out[1], NW),
			"s1 = zzSubMod(zzSubMod(k, (s0 + 2^l) d mod q, q), H mod q, q)");
		V_ASSERT(r_cmp(u, q, NW) < 0, "s1 < q");
	}
	V_CANARY("flow sign");
}

/* exported point == the two coordinates of the curve-arithmetic result, written to out, out + no */
#define EXPORTED(out, src) \
	(E.nto == 2 && eqw(E.to_in[0], (src), NW) && eqw(E.to_in[1], (src) + NW, NW) && \
	 eqo((out), E.to_val[0], NO) && eqo((out) + NO, E.to_val[1], NO))

void h_keypairgen(void)
{
	PROLOGUE0;
	V_IN(int, have_rng); V_IN(size_t, rng_state);
	V_BUF(octet, privkey, NO); V_BUF(octet, pubkey, 2 * NO);
	word d[NW]; err_t code; int fav;
	gen_i rng = have_rng ? rng_stub : 0;
	code = bignKeypairGen(privkey, pubkey, &params, rng, (void*)rng_state);
	STATE_RULES(code);
	fav = operable && rng != 0 && E.created && E.start_ret == 1 && E.nrand == 1 && E.rand_ret && E.nmul == 1 && E.mul_ret;
	V_ASSERT(code == ERR_OK ? fav : 1, "bignKeypairGen succeeds only with a generator and 0 < d < q");
	V_ASSERT(code != ERR_OK ? !fav : 1, "bignKeypairGen succeeds whenever its inputs are admissible");
	V_ASSERT(E.nrand == 0 || (E.rand_mod == E.order && E.rand_n == NW && E.rand_rng == rng && E.rand_state == (void*)rng_state),
		"d is drawn modulo q (the group order) with the caller's generator");
	if (code == ERR_OK)
	{
		ld(d, privkey, NO);
		V_ASSERT(eqw(d, E.rand_val, NW) && !r_iszero(d, NW) && r_cmp(d, q, NW) < 0, "the private key returned is the value drawn, 0 < d < q");
		V_ASSERT(E.mul_ec == (const void*)E.ec && E.mul_a == E.base && eqw(E.mul_aval, E.base_val, 2 * NW) && E.mul_m == NW && eqw(E.mul_d, d, NW), "Q = d G");
		V_ASSERT(EXPORTED(pubkey, E.mul_out), "the public key returned is <Q_x>_2l || <Q_y>_2l");
	}
	V_CANARY("flow keypairgen");
}

void h_keypairval(void)
{
	PROLOGUE0;
	V_IN_ARR(octet, privkey, NO); V_IN_ARR(octet, pubkey, 2 * NO);
	word d[NW]; err_t code; int fav, range;
	code = bignKeypairVal(&params, privkey, pubkey);
	STATE_RULES(code);
	ld(d, privkey, NO);
	range = !r_iszero(d, NW) && r_cmp(d, q, NW) < 0;
	fav = operable && E.created && E.start_ret == 1 && range && E.nmul == 1 && E.mul_ret && EXPORTED(pubkey, E.mul_out);
	V_ASSERT(code == ERR_OK ? fav : 1, "bignKeypairVal accepts only 0 < d < q with pubkey == export(d G)");
	V_ASSERT(code != ERR_OK ? !fav : 1, "bignKeypairVal accepts every pair with 0 < d < q and pubkey == export(d G)");
	V_ASSERT((E.created && E.start_ret == 1 && operable && !range) ? code == ERR_BAD_PRIVKEY : 1, "d = 0 or d >= q is ERR_BAD_PRIVKEY");
	if (E.nmul)
		V_ASSERT(E.mul_ec == (const void*)E.ec && E.mul_a == E.base && eqw(E.mul_aval, E.base_val, 2 * NW) && E.mul_m == NW && eqw(E.mul_d, d, NW), "Q = d G");
	V_CANARY("flow keypairval");
}

void h_pubkeyval(void)
{
	PROLOGUE0;
	V_IN_ARR(octet, pubkey, 2 * NO);
	err_t code; int fav;
	code = bignPubkeyVal(&params, pubkey);
	STATE_RULES(code);
	fav = operable && E.created && E.start_ret == 1 && E.nfrom == 2 && E.from_ret[0] && E.from_ret[1] && E.nison == 1 && E.ison_ret;
	V_ASSERT(code == ERR_OK ? fav : 1, "bignPubkeyVal accepts only in-range coordinates of a point on the curve");
	V_ASSERT(code != ERR_OK ? !fav : 1, "bignPubkeyVal accepts every in-range point on the curve");
	if (E.nfrom >= 1) V_ASSERT(E.from_src[0] == pubkey, "x imported from pubkey");
	if (E.nfrom >= 2) V_ASSERT(E.from_src[1] == pubkey + NO, "y imported from pubkey + no");
	if (E.nison) V_ASSERT(eqw(E.ison_val, E.from_val[0], NW) && eqw(E.ison_val + NW, E.from_val[1], NW), "the curve equation is checked on the imported point");
	V_CANARY("flow pubkeyval");
}

void h_pubkeycalc(void)
{
	PROLOGUE0;
	V_IN_ARR(octet, privkey, NO); V_BUF(octet, pubkey, 2 * NO);
	word d[NW]; err_t code; int fav, range;
	code = bignPubkeyCalc(pubkey, &params, privkey);
	STATE_RULES(code);
	ld(d, privkey, NO);
	range = !r_iszero(d, NW) && r_cmp(d, q, NW) < 0;
	fav = operable && E.created && E.start_ret == 1 && range && E.nmul == 1 && E.mul_ret;
	V_ASSERT(code == ERR_OK ? fav : 1, "bignPubkeyCalc succeeds only for 0 < d < q");
	V_ASSERT(code != ERR_OK ? !fav : 1, "bignPubkeyCalc succeeds for every 0 < d < q");
	if (code == ERR_OK)
	{
		V_ASSERT(E.mul_ec == (const void*)E.ec && E.mul_a == E.base && eqw(E.mul_aval, E.base_val, 2 * NW) && E.mul_m == NW && eqw(E.mul_d, d, NW), "Q = d G");
		V_ASSERT(EXPORTED(pubkey, E.mul_out), "the public key returned is <Q_x>_2l || <Q_y>_2l");
	}
	V_CANARY("flow pubkeycalc");
}

void h_dh(void)
{
	PROLOGUE0;
	V_IN_ARR(octet, privkey, NO); V_IN_ARR(octet, pubkey, 2 * NO); V_IN(size_t, key_len);
	word d[NW]; err_t code; int fav, range; size_t j;
	V_ASSUME(key_len <= 2 * NO + 1);
	{
	V_TAIL(octet, key, key_len, 2 * NO + 1);
	code = bignDH(key, &params, privkey, pubkey, key_len);
	STATE_RULES(code);
	ld(d, privkey, NO);
	range = !r_iszero(d, NW) && r_cmp(d, q, NW) < 0;
	fav = operable && E.created && E.start_ret == 1 && key_len <= 2 * NO && range &&
		E.nfrom == 2 && E.from_ret[0] && E.from_ret[1] && E.nison == 1 && E.ison_ret && E.nmul == 1 && E.mul_ret;
	V_ASSERT(code == ERR_OK ? fav : 1, "bignDH succeeds only for 0 < d < q and an in-range public key on the curve");
	V_ASSERT(code != ERR_OK ? !fav : 1, "bignDH succeeds whenever its inputs are admissible");
	if (E.nison) V_ASSERT(eqw(E.ison_val, E.from_val[0], NW) && eqw(E.ison_val + NW, E.from_val[1], NW) && E.from_src[0] == pubkey && E.from_src[1] == pubkey + NO,
		"the curve equation is checked on the imported public key");
	if (code == ERR_OK)
	{
		int same = 1;
		V_ASSERT(E.mul_ec == (const void*)E.ec && eqw(E.mul_aval, E.from_val[0], NW) && eqw(E.mul_aval + NW, E.from_val[1], NW) && E.mul_m == NW && eqw(E.mul_d, d, NW), "shared point = d Q");
		V_ASSERT(E.nto == (key_len > NO ? 2 : 1) && eqw(E.to_in[0], E.mul_out, NW) && (E.nto < 2 || eqw(E.to_in[1], E.mul_out + NW, NW)), "the coordinates of d Q are exported");
		for (j = 0; j < 2 * NO; ++j)
			if (j < key_len) same &= key[j] == (j < NO ? E.to_val[0][j] : E.to_val[1][j - NO]);
		V_ASSERT(same, "key = first key_len octets of <x>_2l || <y>_2l");
	}
	}
	V_CANARY("flow dh");
}

/* ---- deterministic signing (bignSign2, bignIdSign2): nonce by algorithm 6.3.3.
   theta = belt-hash(oid || d [|| t]) on a COPY of the hash state taken after oid; k = first admissible value of the chain
   H -> belt-wbl(H, theta) -> belt-wbl(..) (at most three rounds in this model); then as in probabilistic signing. */
static void check_sign2(err_t code, int operable, const word* q, const octet* oid, size_t oid_len, const octet* hash, const octet* privkey,
	const octet* id_hash, const void* t, size_t t_len, const octet* sig, int zero_key_ok)
{
	word d[NW], H[NW], s0[NW], tt[2 * NW + 1], u[NW], k[NW]; int fav, range, i, e; size_t j; word cy;
	STATE_RULES(code);
	ld(d, privkey, NO); ld(H, hash, NO);
	range = (zero_key_ok || !r_iszero(d, NW)) && r_cmp(d, q, NW) < 0;
	fav = operable && E.noid == 1 && E.oid_ret != SIZE_MAX && E.created && E.start_ret == 1 && range && E.nmul == 1 && E.mul_ret;
	V_ASSERT(code == ERR_OK ? fav : 1, "deterministic signing succeeds only with an admissible private key");
	V_ASSERT(code != ERR_OK ? !fav : 1, "deterministic signing succeeds whenever its inputs are admissible");
	V_ASSERT(E.nrand == 0, "no generator is used");
	if (code != ERR_OK) return;
	/* theta */
	e = 0;
	V_ASSERT(E.h_kind[0] == H_START && E.h_kind[1] == H_STEPH && E.h_ptr[1] == (const void*)oid && E.h_len[1] == oid_len && E.h_state[1] == E.h_state[0], "hash state: oid first");
	V_ASSERT(E.h_kind[2] == H_STEPH && E.h_ptr[2] == (const void*)privkey && E.h_len[2] == NO && E.h_state[2] != E.h_state[0] && E.h_id[2] == E.h_id[0] && E.h_cnt[2] == 2,
		"theta: the private key is hashed on a copy of the state taken after oid");
	e = 3;
	if (t != 0) { V_ASSERT(E.h_kind[3] == H_STEPH && E.h_ptr[3] == t && E.h_len[3] == t_len && E.h_state[3] == E.h_state[2] && E.h_cnt[3] == 3, "theta: t is hashed after the private key"); e = 4; }
	V_ASSERT(E.h_kind[e] == H_G && E.h_state[e] == E.h_state[2] && E.h_cnt[e] == (word)e, "theta = hash of oid || d [|| t]");
	V_ASSERT(E.wbl_len == 32, "belt-wbl keyed with theta");
	/* the hash output of this G is overwritten later by G2: compare the key snapshot with what G wrote at that time is implicit
	   (the key pointer is the G output buffer) */
	V_ASSERT(E.wbl_key == E.h_ptr[e], "belt-wbl key is the hash output");
	/* chain */
	V_ASSERT(E.nwbl >= 1 && E.wbl_count[0] == NO && eqo(E.wbl_in[0], hash, NO), "the chain starts from H");
	for (i = 1; i < 3; ++i) if (i < E.nwbl) V_ASSERT(E.wbl_count[i] == NO && eqo(E.wbl_in[i], E.wbl_out[i - 1], NO), "a rejected candidate is encrypted again unchanged");
	for (i = 0; i < 3; ++i) if (i < E.nwbl)
	{
		ld(k, E.wbl_out[i], NO);
		if (i + 1 < E.nwbl) V_ASSERT(r_iszero(k, NW) || r_cmp(k, q, NW) >= 0, "only inadmissible candidates are skipped");
		else V_ASSERT(!r_iszero(k, NW) && r_cmp(k, q, NW) < 0 && eqw(E.mul_d, k, NW), "k is the first admissible candidate, 0 < k < q");
	}
	V_ASSERT(E.mul_ec == (const void*)E.ec && E.mul_a == E.base && eqw(E.mul_aval, E.base_val, 2 * NW) && E.mul_m == NW, "R = k G");
	V_ASSERT(E.nto == 1 && eqw(E.to_in[0], E.mul_out, NW), "the x-coordinate of R is exported");
	/* s0 */
	++e;
	V_ASSERT(E.h_kind[e] == H_STEPH && E.h_state[e] == E.h_state[0] && E.h_cnt[e] == 2 && E.h_len[e] == NO && eqo(E.h_val[e], E.to_val[0], NO), "s0: <R> hashed on the original state after oid");
	++e;
	if (id_hash) { V_ASSERT(E.h_kind[e] == H_STEPH && E.h_state[e] == E.h_state[0] && E.h_ptr[e] == (const void*)id_hash && E.h_len[e] == NO, "s0: identifier hash"); ++e; }
	V_ASSERT(E.h_kind[e] == H_STEPH && E.h_state[e] == E.h_state[0] && E.h_ptr[e] == (const void*)hash && E.h_len[e] == NO, "s0: message hash");
	++e;
	V_ASSERT(E.h_kind[e] == H_G2 && E.h_state[e] == E.h_state[0] && E.h_ptr[e] == (const void*)sig && E.h_len[e] == NO / 2 && E.nh == e + 1, "s0 written to the signature");
	/* s1 */
	for (j = 0; j < NW; ++j) s0[j] = 0;
	ld(s0, sig, NO / 2);
	V_ASSERT(E.nzmul == 1 && E.zmul_n == NW / 2 && E.zmul_m == NW && eqw(E.zmul_a, s0, NW / 2) && eqw(E.zmul_b, d, NW), "s0 * d");
	for (j = 0; j < 2 * NW + 1; ++j) tt[j] = j < NW + NW / 2 ? E.zmul_out[j] : 0;
	cy = r_add(tt + NW / 2, tt + NW / 2, d, NW, 0); tt[NW + NW / 2] = cy;
	V_ASSERT(E.nzmod == 1 && E.zmod_n == NW + NW / 2 + 1 && E.zmod_mod == E.order && eqw(E.zmod_a, tt, NW + NW / 2 + 1), "(s0 + 2^l) d reduced modulo q");
	redq(H, q);
	ld(u, sig + NO / 2, NO);
	V_ASSERT(E.nam == 2 && E.am_kind[0] == -1 && E.am_kind[1] == -1 && E.amod_mod[0] == E.order && E.amod_mod[1] == E.order &&
		eqw(E.amod_a[0], E.mul_d, NW) && eqw(E.amod_b[0], E.zmod_out, NW) &&
		eqw(E.amod_a[1], E.amod_out[0], NW) && eqw(E.amod_b[1], H, NW) && eqw(u, E.amod_out[1], NW),
		"s1 = zzSubMod(zzSubMod(k, (s0 + 2^l) d mod q, q), H mod q, q)");
}

void h_sign2(void)
{
	PROLOGUE;
	V_IN_ARR(octet, privkey, NO); V_IN_ARR(octet, tbuf, 8); V_IN(size_t, t_len);
	V_BUF(octet, sig, NO + NO / 2);
	err_t code; const void* t = HAVE_T ? (const void*)&tbuf[0] : (const void*)0;   /* concrete per group: a symbolic choice makes the event index symbolic */
	V_ASSUME(t_len <= 8);
	code = bignSign2(sig, &params, oid, oid_len, hash, privkey, t, t_len);
	check_sign2(code, operable, q, oid, oid_len, hash, privkey, 0, t, t_len, sig, 0);
	V_CANARY("flow sign2");
}

void h_idsign2(void)
{
	PROLOGUE;
	V_IN_ARR(octet, privkey, NO); V_IN_ARR(octet, id_hash, NO); V_IN_ARR(octet, tbuf, 8); V_IN(size_t, t_len);
	V_BUF(octet, sig, NO + NO / 2);
	err_t code; const void* t = HAVE_T ? (const void*)&tbuf[0] : (const void*)0;
	V_ASSUME(t_len <= 8);
	code = bignIdSign2(sig, &params, oid, oid_len, id_hash, hash, privkey, t, t_len);
	check_sign2(code, operable, q, oid, oid_len, hash, privkey, id_hash, t, t_len, sig, 1);
	V_CANARY("flow idsign2");
}

/* ---- identity-based signatures: bignIdSign (as bignSign with the identifier hash in the transcript; e = 0 is admitted by
   the code: only e < q is checked), bignIdExtract (verification of the signature of the identifier, then e = (s1 + H) mod q
   and the recovered point R are exported) */
void h_idsign(void)
{
	PROLOGUE;
	V_IN_ARR(octet, privkey, NO); V_IN_ARR(octet, id_hash, NO); V_IN(int, have_rng); V_IN(size_t, rng_state);
	V_BUF(octet, sig, NO + NO / 2);
	word d[NW], H[NW], s0[NW], t[2 * NW + 1], u[NW]; err_t code; int fav; size_t j; word cy;
	gen_i rng = have_rng ? rng_stub : 0;
	code = bignIdSign(sig, &params, oid, oid_len, id_hash, hash, privkey, rng, (void*)rng_state);
	STATE_RULES(code);
	ld(d, privkey, NO); ld(H, hash, NO);
	fav = operable && E.noid == 1 && E.oid_ret != SIZE_MAX && rng != 0 && E.created && E.start_ret == 1 &&
		r_cmp(d, q, NW) < 0 && E.nrand == 1 && E.rand_ret && E.nmul == 1 && E.mul_ret;
	V_ASSERT(code == ERR_OK ? fav : 1, "bignIdSign succeeds only with e < q, a generator and 0 < k < q");
	V_ASSERT(code != ERR_OK ? !fav : 1, "bignIdSign succeeds whenever its inputs are admissible");
	V_ASSERT(E.nrand == 0 || (E.rand_mod == E.order && E.rand_n == NW && E.rand_rng == rng && E.rand_state == (void*)rng_state),
		"k is drawn modulo q with the caller's generator");
	if (code == ERR_OK)
	{
		V_ASSERT(E.mul_ec == (const void*)E.ec && E.mul_a == E.base && eqw(E.mul_aval, E.base_val, 2 * NW) && E.mul_m == NW && eqw(E.mul_d, E.rand_val, NW), "V = k G");
		V_ASSERT(E.nto == 1 && eqw(E.to_in[0], E.mul_out, NW), "the x-coordinate of V is exported");
		V_ASSERT(E.nh == 6 && E.h_kind[0] == H_START &&
			E.h_kind[1] == H_STEPH && E.h_ptr[1] == (const void*)oid && E.h_len[1] == oid_len &&
			E.h_kind[2] == H_STEPH && E.h_len[2] == NO && eqo(E.h_val[2], E.to_val[0], NO) &&
			E.h_kind[3] == H_STEPH && E.h_ptr[3] == (const void*)id_hash && E.h_len[3] == NO &&
			E.h_kind[4] == H_STEPH && E.h_ptr[4] == (const void*)hash && E.h_len[4] == NO &&
			E.h_kind[5] == H_G2 && E.h_ptr[5] == (const void*)sig && E.h_len[5] == NO / 2,
			"belt-hash transcript: oid || <V> || id_hash || H, s0 written to the signature");
		for (j = 0; j < NW; ++j) s0[j] = 0;
		ld(s0, sig, NO / 2);
		V_ASSERT(E.nzmul == 1 && E.zmul_n == NW / 2 && E.zmul_m == NW && eqw(E.zmul_a, s0, NW / 2) && eqw(E.zmul_b, d, NW), "s0 * e");
		for (j = 0; j < 2 * NW + 1; ++j) t[j] = j < NW + NW / 2 ? E.zmul_out[j] : 0;
		cy = r_add(t + NW / 2, t + NW / 2, d, NW, 0); t[NW + NW / 2] = cy;
		V_ASSERT(E.nzmod == 1 && E.zmod_n == NW + NW / 2 + 1 && E.zmod_mod == E.order && eqw(E.zmod_a, t, NW + NW / 2 + 1), "(s0 + 2^l) e reduced modulo q");
		redq(H, q);
		ld(u, sig + NO / 2, NO);
		V_ASSERT(E.nam == 2 && E.am_kind[0] == -1 && E.am_kind[1] == -1 && E.amod_mod[0] == E.order && E.amod_mod[1] == E.order &&
			eqw(E.amod_a[0], E.rand_val, NW) && eqw(E.amod_b[0], E.zmod_out, NW) &&
			eqw(E.amod_a[1], E.amod_out[0], NW) && eqw(E.amod_b[1], H, NW) && eqw(u, E.amod_out[1], NW),
			"s1 = zzSubMod(zzSubMod(k, (s0 + 2^l) e mod q, q), H mod q, q)");
	}
	V_CANARY("flow idsign");
}

void h_idextract(void)
{
	PROLOGUE;                                           /* hash = hash of the identifier */
	V_IN_ARR(octet, sig, NO + NO / 2); V_IN_ARR(octet, pubkey, 2 * NO);
	V_BUF(octet, id_privkey, NO); V_BUF(octet, id_pubkey, 2 * NO);
	word s1[NW], H[NW], s0[NW / 2 + 1], u[NW]; err_t code; int fav;
	code = bignIdExtract(id_privkey, id_pubkey, &params, oid, oid_len, hash, sig, pubkey);
	STATE_RULES(code);
	ld(s1, sig + NO / 2, NO); ld(H, hash, NO); ld(s0, sig, NO / 2); s0[NW / 2] = 1;
	fav = operable && E.noid == 1 && E.oid_ret != SIZE_MAX && E.created && E.start_ret == 1 &&
		E.nfrom == 2 && E.from_ret[0] && E.from_ret[1] && r_cmp(s1, q, NW) < 0 &&
		E.naddmul == 1 && E.am_ret && E.nh == 5 && E.h_ret;
	V_ASSERT(code == ERR_OK ? fav : 1, "bignIdExtract succeeds only if the signature of the identifier verifies (incl. s1 < q)");
	V_ASSERT(code != ERR_OK ? !fav : 1, "bignIdExtract succeeds whenever the signature verifies");
	if (code == ERR_OK)
	{
		V_ASSERT(E.from_src[0] == pubkey && E.from_src[1] == pubkey + NO, "public key coordinates imported from pubkey, pubkey + no");
		redq(H, q);
		V_ASSERT(E.am_ec == (const void*)E.ec && E.am_pt[0] == E.base && eqw(E.am_ptval[0], E.base_val, 2 * NW), "first point of the sum is the base point");
		V_ASSERT(E.nam == 1 && E.am_kind[0] == 1 && E.amod_mod[0] == E.order && eqw(E.amod_a[0], s1, NW) && eqw(E.amod_b[0], H, NW) &&
			E.am_m[0] == NW && eqw(E.am_d[0], E.amod_out[0], NW), "first scalar is zzAddMod(s1, H mod q, q)");
		V_ASSERT(eqw(E.am_ptval[1], E.from_val[0], NW) && eqw(E.am_ptval[1] + NW, E.from_val[1], NW), "second point of the sum is the imported public key");
		V_ASSERT(E.am_m[1] == NW / 2 + 1 && eqw(E.am_d[1], s0, NW / 2 + 1), "second scalar is s0 + 2^l");
		V_ASSERT(TRANSCRIPT(H_V2, sig), "belt-hash transcript: oid || <R> || H(id), compared with s0");
		ld(u, id_privkey, NO);
		V_ASSERT(eqw(u, E.amod_out[0], NW), "identity private key e = (s1 + H) mod q");
		V_ASSERT(E.nto == 2 && eqw(E.to_in[0], E.am_out, NW) && eqw(E.to_in[1], E.am_out + NW, NW) &&
			eqo(id_pubkey, E.to_val[0], NO) && eqo(id_pubkey + NO, E.to_val[1], NO), "identity public key = exported coordinates of R");
	}
	V_CANARY("flow idextract");
}

/* ---- key transport: bignKeyWrap (token = <R>_2l || belt-kwp(key || header, theta), R = k G, theta = <k Q>_256) */
#ifndef KLEN
#define KLEN 24
#endif
void h_keywrap(void)
{
	PROLOGUE0;
	V_IN_ARR(octet, key, KLEN); V_IN_ARR(octet, header, 16); V_IN_ARR(octet, pubkey, 2 * NO); V_IN(int, have_rng); V_IN(size_t, rng_state);
	V_BUF(octet, token, 16 + NO + KLEN);
	err_t code; int fav; size_t j; int same;
	gen_i rng = have_rng ? rng_stub : 0;
	const octet* hdr = HAVE_T ? (const octet*)&header[0] : (const octet*)0;
	code = bignKeyWrap(token, &params, key, KLEN, hdr, pubkey, rng, (void*)rng_state);
	STATE_RULES(code);
	fav = operable && rng != 0 && E.created && E.start_ret == 1 && E.nrand == 1 && E.rand_ret &&
		E.nfrom == 2 && E.from_ret[0] && E.from_ret[1] && E.nmul == 2 && E.mul_ret && E.mul2_ret;
	V_ASSERT(code == ERR_OK ? fav : 1, "bignKeyWrap succeeds only with a generator, 0 < k < q and in-range public key coordinates");
	V_ASSERT(code != ERR_OK ? !fav : 1, "bignKeyWrap succeeds whenever its inputs are admissible");
	V_ASSERT(E.nrand == 0 || (E.rand_mod == E.order && E.rand_n == NW && E.rand_rng == rng && E.rand_state == (void*)rng_state),
		"k is drawn modulo q with the caller's generator");
	if (code == ERR_OK)
	{
		V_ASSERT(E.from_src[0] == pubkey && E.from_src[1] == pubkey + NO, "public key coordinates imported from pubkey, pubkey + no");
		V_ASSERT(E.mul_ec == (const void*)E.ec && eqw(E.mul_aval, E.from_val[0], NW) && eqw(E.mul_aval + NW, E.from_val[1], NW) && E.mul_m == NW && eqw(E.mul_d, E.rand_val, NW), "k Q");
		V_ASSERT(E.mul2_ec == (const void*)E.ec && E.mul2_a == E.base && eqw(E.mul2_aval, E.base_val, 2 * NW) && E.mul2_m == NW && eqw(E.mul2_d, E.rand_val, NW), "R = k G");
		V_ASSERT(E.nto == 2 && eqw(E.to_in[0], E.mul_out, NW) && eqw(E.to_in[1], E.mul2_out, NW), "the x-coordinates of k Q and R are exported");
		V_ASSERT(E.wbl_len == 32 && E.wbl_key == (const void*)E.to_dst[0] && eqo(E.wbl_keyval, E.to_val[0], 32), "belt-kwp keyed with theta = first 32 octets of <k Q>");
		same = E.nwbl == 1 && E.wbl_count[0] == KLEN + 16 && E.wbl_ptr[0] == (const void*)(token + NO);
		for (j = 0; j < KLEN; ++j) same &= E.wbl_in[0][j] == key[j];
		for (j = 0; j < 16; ++j) same &= E.wbl_in[0][KLEN + j] == (hdr ? header[j] : 0);
		V_ASSERT(same, "belt-kwp protects key || header (zero header when none is given), in place at token + no");
		same = 1;
		for (j = 0; j < NO; ++j) same &= token[j] == E.to_val[1][j];
		for (j = 0; j < KLEN + 16; ++j) same &= token[NO + j] == E.wbl_out[0][j];
		V_ASSERT(same, "token = <R>_2l || protected key");
	}
	V_CANARY("flow keywrap");
}

/* ---- key transport: bignKeyUnwrap (R recovered from its x-coordinate: y = (x^3 + a x + b)^((p+1)/4), accepted only if
   y^2 reproduces the right-hand side; theta = <d R>_256; key || header2 = belt-kwp^-1; header2 must be the expected header) */
void h_keyunwrap(void)
{
	PROLOGUE0;
	V_IN_ARR(octet, token, 16 + NO + KLEN); V_IN_ARR(octet, header, 16); V_IN_ARR(octet, privkey, NO);
	V_BUF(octet, key, KLEN);
	word d[NW], e1[NW], e2[NW]; err_t code; int fav, range, hdr_ok, same; size_t j;
	const octet* hdr = HAVE_T ? (const octet*)&header[0] : (const octet*)0;
	code = bignKeyUnwrap(key, &params, token, 16 + NO + KLEN, hdr, privkey);
	STATE_RULES(code);
	ld(d, privkey, NO);
	range = !r_iszero(d, NW) && r_cmp(d, q, NW) < 0;
	hdr_ok = 1;
	for (j = 0; j < 16; ++j) hdr_ok &= E.d2_out2[j] == (hdr ? header[j] : 0);
	fav = operable && E.created && E.start_ret == 1 && range && E.nfrom == 1 && E.from_ret[0] && E.nsqr == 2 && E.nfmul == 1 && E.npow == 1 &&
		eqw(E.sqr_out[1], E.amod_out[1], NW) && E.nmul == 1 && E.mul_ret && E.nd2 == 1 && hdr_ok;
	V_ASSERT(code == ERR_OK ? fav : 1, "bignKeyUnwrap succeeds only for 0 < d < q, a token whose prefix is the x-coordinate of a point, and the expected header");
	V_ASSERT(code != ERR_OK ? !fav : 1, "bignKeyUnwrap succeeds whenever its inputs are admissible and the header matches");
	V_ASSERT((E.nd2 == 1 && !hdr_ok) ? code == ERR_BAD_KEYTOKEN : 1, "a header mismatch is ERR_BAD_KEYTOKEN");
	if (E.nd2 == 1 && !hdr_ok) { same = 1; for (j = 0; j < KLEN; ++j) same &= key[j] == 0; V_ASSERT(same, "a rejected token releases no key octets"); }
	if (E.nmul)
	{
		/* point decompression */
		V_ASSERT(E.from_src[0] == token, "x imported from the token");
		V_ASSERT(eqw(E.sqr_in[0], E.from_val[0], NW), "x^2");
		V_ASSERT(E.nam >= 2 && E.am_kind[0] == 1 && eqw(E.amod_a[0], E.sqr_out[0], NW) && eqw(E.amod_b[0], E.A_val, NW), "x^2 + a");
		V_ASSERT(eqw(E.fmul_a, E.amod_out[0], NW) && eqw(E.fmul_b, E.from_val[0], NW), "(x^2 + a) x");
		V_ASSERT(E.am_kind[1] == 1 && eqw(E.amod_a[1], E.fmul_out, NW) && eqw(E.amod_b[1], E.B_val, NW), "x^3 + a x + b");
		r_addw(e1, E.p, NW, 1); for (j = 0; j < NW; ++j) e2[j] = (e1[j] >> 2) | (j + 1 < NW ? e1[j + 1] << (B_PER_W - 2) : 0);
		V_ASSERT(eqw(E.pow_a, E.amod_out[1], NW) && eqw(E.pow_e, e2, NW), "y = (x^3 + a x + b)^((p + 1) / 4)");
		V_ASSERT(eqw(E.sqr_in[1], E.pow_out, NW) && eqw(E.sqr_out[1], E.amod_out[1], NW), "accepted only if y^2 == x^3 + a x + b");
		V_ASSERT(E.mul_ec == (const void*)E.ec && eqw(E.mul_aval, E.from_val[0], NW) && eqw(E.mul_aval + NW, E.pow_out, NW) && E.mul_m == NW && eqw(E.mul_d, d, NW), "d R");
	}
	if (E.nd2)
	{
		V_ASSERT(E.nto == 1 && eqw(E.to_in[0], E.mul_out, NW), "the x-coordinate of d R is exported");
		V_ASSERT(E.wbl_len == 32 && E.wbl_key == (const void*)E.to_dst[0] && eqo(E.wbl_keyval, E.to_val[0], 32), "belt-kwp keyed with theta = first 32 octets of <d R>");
		same = E.d2_count == KLEN + 16 && E.d2_buf1 == (const void*)key;
		for (j = 0; j < KLEN; ++j) same &= E.d2_in1[j] == token[NO + j];
		for (j = 0; j < 16; ++j) same &= E.d2_in2[j] == token[NO + KLEN + j];
		V_ASSERT(same, "belt-kwp^-1 applied to the protected key || protected header of the token");
	}
	if (code == ERR_OK) { same = 1; for (j = 0; j < KLEN; ++j) same &= key[j] == E.d2_out1[j]; V_ASSERT(same, "the key returned is the unprotected key"); }
	V_CANARY("flow keyunwrap");
}

/* ---- bignIdVerify: R (identity public key) must be on the curve; t = belt-hash(oid || <R> || H0) on a copy of the hash state;
   V = (s1 + H) G + (s0 + 2^l) R - ((s0 + 2^l)(t + 2^l) mod q) Q; accepted iff s0 == belt-hash(oid || <V> || H0 || H) */
void h_idverify(void)
{
	PROLOGUE;
	V_IN_ARR(octet, id_hash, NO); V_IN_ARR(octet, sig, NO + NO / 2); V_IN_ARR(octet, id_pubkey, 2 * NO); V_IN_ARR(octet, pubkey, 2 * NO);
	word s1[NW], H[NW], s0[NW / 2 + 1], t[NW / 2], tt[NW + 1]; err_t code; int fav; size_t j; word cy;
	code = bignIdVerify(&params, oid, oid_len, id_hash, hash, sig, id_pubkey, pubkey);
	STATE_RULES(code);
	ld(s1, sig + NO / 2, NO); ld(H, hash, NO); ld(s0, sig, NO / 2); s0[NW / 2] = 1;
	fav = operable && E.noid == 1 && E.oid_ret != SIZE_MAX && E.created && E.start_ret == 1 &&
		E.nfrom == 4 && E.from_ret[0] && E.from_ret[1] && E.from_ret[2] && E.from_ret[3] && E.nison == 1 && E.ison_ret &&
		r_cmp(s1, q, NW) < 0 && E.naddmul == 1 && E.am_ret && E.nh == 9 && E.h_ret;
	V_ASSERT(code == ERR_OK ? fav : 1, "bignIdVerify accepts only if every check passed (identity key on the curve, keys in range, s1 < q, final comparison)");
	V_ASSERT(code != ERR_OK ? !fav : 1, "bignIdVerify accepts whenever every check passed");
	if (E.nison) V_ASSERT(E.ison_nfrom == 2 && E.from_src[0] == id_pubkey && E.from_src[1] == id_pubkey + NO &&
		eqw(E.ison_val, E.from_val[0], NW) && eqw(E.ison_val + NW, E.from_val[1], NW), "the curve equation is checked on the imported identity public key before anything else uses it");
	if (code == ERR_OK)
	{
		V_ASSERT(E.from_src[2] == pubkey && E.from_src[3] == pubkey + NO, "public key of the trusted party imported from pubkey, pubkey + no");
		redq(H, q);
		V_ASSERT(E.nam == 1 && E.am_kind[0] == 1 && E.amod_mod[0] == E.order && eqw(E.amod_a[0], s1, NW) && eqw(E.amod_b[0], H, NW), "(s1 + H) mod q");
		/* t */
		V_ASSERT(E.h_kind[0] == H_START && E.h_kind[1] == H_STEPH && E.h_ptr[1] == (const void*)oid && E.h_len[1] == oid_len && E.h_state[1] == E.h_state[0], "hash state: oid first");
		V_ASSERT(E.h_kind[2] == H_STEPH && E.h_ptr[2] == (const void*)id_pubkey && E.h_len[2] == NO && E.h_state[2] != E.h_state[0] && E.h_id[2] == E.h_id[0] && E.h_cnt[2] == 2 &&
			E.h_kind[3] == H_STEPH && E.h_ptr[3] == (const void*)id_hash && E.h_len[3] == NO && E.h_state[3] == E.h_state[2] && E.h_cnt[3] == 3 &&
			E.h_kind[4] == H_G2 && E.h_state[4] == E.h_state[2] && E.h_len[4] == NO / 2 && E.h_cnt[4] == 4, "t = belt-hash(oid || <R>_2l || H0) on a copy of the state taken after oid");
		/* (s0 + 2^l)(t + 2^l) = s0 t + (s0 + t) 2^l + 2^2l */
		ld(t, E.h_out4, NO / 2);
		V_ASSERT(E.nzmul == 1 && E.zmul_n == NW / 2 && E.zmul_m == NW / 2 && eqw(E.zmul_a, t, NW / 2) && eqw(E.zmul_b, s0, NW / 2), "t * s0");
		for (j = 0; j < NW + 1; ++j) tt[j] = j < NW ? E.zmul_out[j] : 0;
		cy = r_add(tt + NW / 2, tt + NW / 2, t, NW / 2, 0); tt[NW] += cy;
		cy = r_add(tt + NW / 2, tt + NW / 2, s0, NW / 2, 0); tt[NW] += cy;
		++tt[NW];
		V_ASSERT(E.nzmod == 1 && E.zmod_n == NW + 1 && E.zmod_mod == E.order && eqw(E.zmod_a, tt, NW + 1), "(s0 + 2^l)(t + 2^l) reduced modulo q");
		V_ASSERT(E.nneg == 1 && E.neg_mod == E.order && eqw(E.neg_in, E.zmod_out, NW), "negated modulo q");
		V_ASSERT(E.am_k == 3 && E.am_ec == (const void*)E.ec && E.am_pt[0] == E.base && eqw(E.am_ptval[0], E.base_val, 2 * NW) && E.am_m[0] == NW && eqw(E.am_d[0], E.amod_out[0], NW), "first term: ((s1 + H) mod q) G");
		V_ASSERT(eqw(E.am_ptval[1], E.from_val[0], NW) && eqw(E.am_ptval[1] + NW, E.from_val[1], NW) && E.am_m[1] == NW / 2 + 1 && eqw(E.am_d[1], s0, NW / 2 + 1), "second term: (s0 + 2^l) R");
		V_ASSERT(eqw(E.am_ptval[2], E.from_val[2], NW) && eqw(E.am_ptval[2] + NW, E.from_val[3], NW) && E.am_m[2] == NW && eqw(E.am_d[2], E.neg_out, NW), "third term: -((s0 + 2^l)(t + 2^l) mod q) Q");
		V_ASSERT(E.nto == 1 && eqw(E.to_in[0], E.am_out, NW), "the x-coordinate of V is exported");
		V_ASSERT(E.h_kind[5] == H_STEPH && E.h_state[5] == E.h_state[0] && E.h_cnt[5] == 2 && E.h_len[5] == NO && eqo(E.h_val[5], E.to_val[0], NO) &&
			E.h_kind[6] == H_STEPH && E.h_state[6] == E.h_state[0] && E.h_ptr[6] == (const void*)id_hash && E.h_len[6] == NO &&
			E.h_kind[7] == H_STEPH && E.h_state[7] == E.h_state[0] && E.h_ptr[7] == (const void*)hash && E.h_len[7] == NO &&
			E.h_kind[8] == H_V2 && E.h_state[8] == E.h_state[0] && E.h_ptr[8] == (const void*)sig && E.h_len[8] == NO / 2,
			"belt-hash transcript on the original state: oid || <V> || H0 || H, compared with s0");
	}
	V_CANARY("flow idverify");
}
