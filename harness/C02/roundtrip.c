/* C02 companion (level N, NOT proof): the whole real stack on the three standard curves, generated private keys,
   hash values (incl. 0, q - 1, q, 2^2l - 1), generator tapes (incl. a first block >= q that forces the rejection
   round) and single-bit alterations.  Decides nothing for all inputs; it is the search that the flow contracts
   (which assume the contracts of the curve / field / hash layers) are paired with. */
#include "verif.h"
#include "bee2/crypto/bign.h"
#include "bee2/core/err.h"
#include "bee2/core/mem.h"
#include "bee2/core/util.h"
#include "harness/ref.h"

#ifdef VERIF_NATIVE
typedef struct { const octet* t; size_t len, pos; } tape_t;
static void tape_rng(void* buf, size_t count, void* st)
{
	tape_t* t = (tape_t*)st; size_t i;
	for (i = 0; i < count; ++i) ((octet*)buf)[i] = t->t[t->pos++ % t->len];
}
static void ld(word* w, const octet* o, size_t no) { size_t i, j; for (i = 0; i < no / O_PER_W; ++i) { w[i] = 0; for (j = 0; j < O_PER_W; ++j) w[i] |= (word)o[i * O_PER_W + j] << (8 * j); } }
static void st_(octet* o, const word* w, size_t no) { size_t i; for (i = 0; i < no; ++i) o[i] = (octet)(w[i / O_PER_W] >> (8 * (i % O_PER_W))); }
static const char* CURVES[3] = { "1.2.112.0.2.0.34.101.45.3.1", "1.2.112.0.2.0.34.101.45.3.2", "1.2.112.0.2.0.34.101.45.3.3" };
/* y^2 == x^3 + a x + b (mod p) by schoolbook reference arithmetic */
static int on_curve(const bign_params* P, const octet* xy, size_t no)
{
	size_t n = no / O_PER_W; word p[8], a[8], b[8], x[8], y[8], t[16], u[8], v[8], l[8], r[9];
	ld(p, P->p, no); ld(a, P->a, no); ld(b, P->b, no); ld(x, xy, no); ld(y, xy + no, no);
	if (r_cmp(x, p, n) >= 0 || r_cmp(y, p, n) >= 0) return 0;
	r_mul(t, y, n, y, n); r_mod(l, t, 2 * n, p, n);
	r_mul(t, x, n, x, n); r_mod(u, t, 2 * n, p, n);
	r_mul(t, u, n, x, n); r_mod(u, t, 2 * n, p, n);
	r_mul(t, a, n, x, n); r_mod(v, t, 2 * n, p, n);
	r[n] = r_add(r, u, v, n, 0); r_mod(u, r, n + 1, p, n);
	r[n] = r_add(r, u, b, n, 0); r_mod(u, r, n + 1, p, n);
	return r_eq(l, u, n);
}
#endif

void h_roundtrip(void)
{
	V_IN(unsigned, sel); V_IN_ARR(octet, dseed, 64); V_IN_ARR(octet, d2seed, 64); V_IN_ARR(octet, hseed, 64); V_IN_ARR(octet, tapeb, 192);
	V_IN(unsigned, flip); V_IN_ARR(octet, keyd, 48); V_IN_ARR(octet, header, 16);
	/* the generator blocks used for k are admissible (0 < k < 2^(2l-1) < q); the first block stays free */
	V_TWEAK(tapeb, { static const unsigned hi[5] = { 63, 95, 127, 143, 191 }, lo[5] = { 32, 48, 64, 96, 128 }; unsigned z; for (z = 0; z < 5; ++z) tapeb[hi[z]] &= 0x7F, tapeb[lo[z]] |= 1; });
	V_NATIVE_ONLY({
		bign_params P[1]; size_t no, n, i; octet oid[16]; size_t oid_len = sizeof(oid);
		octet d[64], d2[64], Q[128], Q2[128], Qg[128], dg[64], hash[64], sig[96], sig2[96], sig3[96], k1[128], k2[128], token[16 + 64 + 48], key2[48];
		word q[8], w[8], t[8]; tape_t tp; err_t e; unsigned c = sel % 3, hk = (sel / 3) % 8, klen;
		V_ASSERT(bignParamsStd(P, CURVES[c]) == ERR_OK, "standard parameters load");
		V_ASSERT(bignParamsVal(P) == ERR_OK, "standard parameters validate");
		no = P->l / 4; n = no / O_PER_W; ld(q, P->q, no);
		V_ASSERT(bignOidToDER(oid, &oid_len, "1.2.112.0.2.0.34.101.31.81") == ERR_OK, "oid");
		/* private keys: reduce the seeds into [1, q - 1]; sometimes 1 or q - 1 */
		ld(w, dseed, no); if (r_cmp(w, q, n) >= 0) { r_sub(t, w, q, n, 0); r_copy(w, t, n); } if (r_iszero(w, n)) w[0] = 1;
		if ((sel >> 8) % 16 == 0) { memset(w, 0, sizeof(w)); w[0] = 1; }
		if ((sel >> 8) % 16 == 1) r_subw(w, q, n, 1);
		st_(d, w, no);
		ld(w, d2seed, no); if (r_cmp(w, q, n) >= 0) { r_sub(t, w, q, n, 0); r_copy(w, t, n); } if (r_iszero(w, n)) w[0] = 2;
		st_(d2, w, no);
		/* hash values */
		memcpy(hash, hseed, no);
		if (hk == 0) memset(hash, 0, no);
		if (hk == 1) { r_subw(w, q, n, 1); st_(hash, w, no); }
		if (hk == 2) memcpy(hash, P->q, no);
		if (hk == 3) memset(hash, 0xFF, no);
		if (hk == 4) { r_addw(w, q, n, 1 + hseed[0]); st_(hash, w, no); }
		/* keys */
		V_ASSERT(bignPubkeyCalc(Q, P, d) == ERR_OK && bignPubkeyCalc(Q2, P, d2) == ERR_OK, "bignPubkeyCalc for 0 < d < q");
		V_ASSERT(bignKeypairVal(P, d, Q) == ERR_OK, "the calculated pair validates");
		V_ASSERT(bignPubkeyVal(P, Q) == ERR_OK && on_curve(P, Q, no), "the calculated public key is an in-range point of the curve");
		/* generated pair; every fourth tape starts with a block >= q */
		tp.t = tapeb; tp.len = sizeof(tapeb); tp.pos = 0;
		if (flip % 4 == 0) { memset((octet*)tapeb, 0xFF, no); }
		e = bignKeypairGen(dg, Qg, P, tape_rng, &tp);
		if (e == ERR_OK)
		{
			V_ASSERT(bignKeypairVal(P, dg, Qg) == ERR_OK, "a generated pair validates");
			ld(w, dg, no); V_ASSERT(!r_iszero(w, n) && r_cmp(w, q, n) < 0, "generated private key in [1, q - 1]");
			ld(w, tapeb, no);
			if (!r_iszero(w, n) && r_cmp(w, q, n) < 0) V_ASSERT(memcmp(dg, tapeb, no) == 0, "first admissible generator block is the private key");
			else { ld(w, tapeb + no, no); if (!r_iszero(w, n) && r_cmp(w, q, n) < 0) V_ASSERT(memcmp(dg, tapeb + no, no) == 0, "rejected block is skipped, the next admissible one is the private key"); }
		}
		/* sign / verify */
		tp.pos = no;
		ld(w, tapeb + no, no); V_ASSUME(!r_iszero(w, n) && r_cmp(w, q, n) < 0);
		ld(w, tapeb + 2 * no, no); V_ASSUME(!r_iszero(w, n) && r_cmp(w, q, n) < 0);
		V_ASSERT(bignSign(sig, P, oid, oid_len, hash, d, tape_rng, &tp) == ERR_OK, "bignSign for a valid key and any hash value");
		V_ASSERT(bignVerify(P, oid, oid_len, hash, sig, Q) == ERR_OK, "a produced signature verifies");
		ld(w, sig + no / 2, no); V_ASSERT(r_cmp(w, q, n) < 0, "s1 < q");
		V_ASSERT(bignSign2(sig2, P, oid, oid_len, hash, d, 0, 0) == ERR_OK && bignSign2(sig3, P, oid, oid_len, hash, d, 0, 0) == ERR_OK &&
			memcmp(sig2, sig3, no + no / 2) == 0, "deterministic signing is deterministic");
		V_ASSERT(bignVerify(P, oid, oid_len, hash, sig2, Q) == ERR_OK, "a deterministic signature verifies");
		V_ASSERT(bignVerify(P, oid, oid_len, hash, sig, Q2) != ERR_OK || memcmp(Q, Q2, 2 * no) == 0, "signature does not verify under another key");
		/* alterations */
		memcpy(sig3, sig, no + no / 2); sig3[(flip / 8) % (no + no / 2)] ^= (octet)(1 << (flip % 8));
		V_ASSERT(bignVerify(P, oid, oid_len, hash, sig3, Q) != ERR_OK, "altered signature rejected");
		memcpy(k1, hash, no); k1[(flip / 8) % no] ^= (octet)(1 << (flip % 8));
		V_ASSERT(bignVerify(P, oid, oid_len, k1, sig, Q) != ERR_OK, "altered hash rejected");
		memcpy(k1, Q, 2 * no); k1[(flip / 8) % (2 * no)] ^= (octet)(1 << (flip % 8));
		V_ASSERT(bignVerify(P, oid, oid_len, hash, sig, k1) != ERR_OK, "altered public key rejected");
		V_ASSERT((bignPubkeyVal(P, k1) == ERR_OK) == on_curve(P, k1, no), "bignPubkeyVal == in-range point of the curve (altered key)");
		{ octet oid2[16]; memcpy(oid2, oid, oid_len); oid2[oid_len - 1] ^= 1;
		  V_ASSERT(bignVerify(P, oid2, oid_len, hash, sig, Q) != ERR_OK, "altered identifier rejected"); }
		/* s1 + q: same residue, must be rejected */
		ld(w, sig + no / 2, no);
		if (!r_add(t, w, q, n, 0)) { memcpy(sig3, sig, no / 2); st_(sig3 + no / 2, t, no); V_ASSERT(bignVerify(P, oid, oid_len, hash, sig3, Q) == ERR_BAD_SIG, "s1 + q rejected"); }
		/* range of the private key */
		memset(k1, 0, no); V_ASSERT(bignSign(sig3, P, oid, oid_len, hash, k1, tape_rng, &tp) == ERR_BAD_PRIVKEY && bignPubkeyCalc(k2, P, k1) == ERR_BAD_PRIVKEY, "d = 0 rejected");
		V_ASSERT(bignSign(sig3, P, oid, oid_len, hash, P->q, tape_rng, &tp) == ERR_BAD_PRIVKEY && bignKeypairVal(P, P->q, Q) != ERR_OK, "d = q rejected");
		/* DH */
		klen = 1 + flip % (2 * no);
		V_ASSERT(bignDH(k1, P, d, Q2, klen) == ERR_OK && bignDH(k2, P, d2, Q, klen) == ERR_OK && memcmp(k1, k2, klen) == 0, "DH is symmetric");
		V_ASSERT(bignDH(k1, P, d, Q2, 2 * no + 1) == ERR_BAD_SHAREDKEY, "DH key longer than 2 no rejected");
		/* key transport */
		klen = 16 + flip % 33;
		tp.pos = 2 * no;
		V_ASSERT(bignKeyWrap(token, P, keyd, klen, (flip & 64) ? header : 0, Q, tape_rng, &tp) == ERR_OK, "bignKeyWrap");
		V_ASSERT(bignKeyUnwrap(key2, P, token, 16 + no + klen, (flip & 64) ? header : 0, d) == ERR_OK && memcmp(key2, keyd, klen) == 0, "a wrapped key unwraps to itself");
		{ octet h2[16]; memcpy(h2, header, 16); h2[flip % 16] ^= 0x80;
		  if (flip & 64) V_ASSERT(bignKeyUnwrap(key2, P, token, 16 + no + klen, h2, d) != ERR_OK, "unwrap under another header rejected"); }
		token[(flip / 8) % (16 + no + klen)] ^= (octet)(1 << (flip % 8));
		/* d = 1 and d = q - 1 keep the x-coordinate (dR = +-R): on the 192/256-bit levels only its first 32 octets enter the
		   protection key, and the standard's equations accept an alteration of the rest */
		ld(w, d, no); r_addw(t, w, n, 1);
		if (!(r_wordsize(w, n) == 1 && w[0] == 1) && !r_eq(t, q, n))
			V_ASSERT(bignKeyUnwrap(key2, P, token, 16 + no + klen, (flip & 64) ? header : 0, d) != ERR_OK, "altered token rejected");
		/* short tokens: len < 32 + no is ERR_BAD_KEYTOKEN, and nothing outside the (exactly sized) key buffer is touched */
		{
			size_t tl = no + 16 + flip % 16; octet* tk = (octet*)v_alloc(tl); octet* kk = (octet*)v_alloc(tl - no - 16 ? tl - no - 16 : 1);
			token[(flip / 8) % (16 + no + klen)] ^= (octet)(1 << (flip % 8));      /* restore the honest token: its prefix is a point of the curve */
			memcpy(tk, token, tl);
			V_ASSERT(bignKeyUnwrap(kk, P, tk, tl, 0, d) == ERR_BAD_KEYTOKEN, "token shorter than 32 + no octets rejected");
			V_ASSERT(bignKeyWrap(token, P, keyd, 15, 0, Q, tape_rng, &tp) == ERR_BAD_INPUT, "key shorter than 16 octets rejected");
		}
		/* identity-based signatures */
		{
			octet idpriv[64], idpub[128], idsig[96], idhash[64];
			memcpy(idhash, d2seed, no);
			V_ASSERT(bignIdExtract(idpriv, idpub, P, oid, oid_len, idhash, (e = bignSign2(sig3, P, oid, oid_len, idhash, d, 0, 0), sig3), Q) == ERR_OK, "bignIdExtract from a valid signature of the identifier");
			tp.pos = no;
			V_ASSERT(bignIdSign(idsig, P, oid, oid_len, idhash, hash, idpriv, tape_rng, &tp) == ERR_OK, "bignIdSign");
			V_ASSERT(bignIdVerify(P, oid, oid_len, idhash, hash, idsig, idpub, Q) == ERR_OK, "an identity-based signature verifies");
			V_ASSERT(bignIdSign2(idsig, P, oid, oid_len, idhash, hash, idpriv, 0, 0) == ERR_OK && bignIdVerify(P, oid, oid_len, idhash, hash, idsig, idpub, Q) == ERR_OK, "a deterministic identity-based signature verifies");
			idsig[(flip / 8) % (no + no / 2)] ^= (octet)(1 << (flip % 8));
			V_ASSERT(bignIdVerify(P, oid, oid_len, idhash, hash, idsig, idpub, Q) != ERR_OK, "altered identity-based signature rejected");
			sig3[(flip / 8) % (no + no / 2)] ^= (octet)(1 << (flip % 8));
			V_ASSERT(bignIdExtract(idpriv, idpub, P, oid, oid_len, idhash, sig3, Q) != ERR_OK, "identity key extraction from an altered signature rejected");
		}
	})
	(void)sel; (void)flip;
	V_CANARY("roundtrip");
}
