/* C14 obligation 2 for the verification entry points of belt: the comparison of tags, hash
   values and key headers executes the same branch sequence for any two secret values.  Two
   runs with independent symbolic key / data / tag (equal lengths); block function
   uninterpreted (stubs/belt_uf.c) under CBMC. */
#include "harness/C14/ct.h"
#include "bee2/core/mem.h"
#include "bee2/core/err.h"
#include "bee2/crypto/belt.h"

#ifndef CNT
#define CNT 21
#endif
volatile int sink;

#define TWO(type, name, n) V_IN_ARR(type, x##name, n); V_IN_ARR(type, y##name, n)

void h_ct_stepv(void)
{
	TWO(octet, key, 32); TWO(octet, iv, 16); TWO(octet, data, CNT); TWO(octet, tag, 32);
	{
		V_ALLOC(octet, s1, beltMAC_keep()); V_ALLOC(octet, s2, beltMAC_keep());
		beltMACStart(s1, xkey, 32), beltMACStepA(xdata, CNT, s1);
		beltMACStart(s2, ykey, 32), beltMACStepA(ydata, CNT, s2);
		CT_PAIR(sink = beltMACStepV(xtag, s1), sink = beltMACStepV(ytag, s2), "beltMACStepV: branch trace independent of key, data and tag");
		CT_PAIR(sink = beltMACStepV2(xtag, 5, s1), sink = beltMACStepV2(ytag, 5, s2), "beltMACStepV2: branch trace independent of key, data and tag");
	}
	{
		V_ALLOC(octet, s1, beltHash_keep()); V_ALLOC(octet, s2, beltHash_keep());
		beltHashStart(s1), beltHashStepH(xdata, CNT, s1);
		beltHashStart(s2), beltHashStepH(ydata, CNT, s2);
		CT_PAIR(sink = beltHashStepV(xtag, s1), sink = beltHashStepV(ytag, s2), "beltHashStepV: branch trace independent of data and hash");
		CT_PAIR(sink = beltHashStepV2(xtag, 13, s1), sink = beltHashStepV2(ytag, 13, s2), "beltHashStepV2: branch trace independent of data and hash");
	}
	V_CANARY("ct_stepv");
}

void h_ct_aead(void)
{
	TWO(octet, key, 32); TWO(octet, iv, 16); TWO(octet, data, CNT); TWO(octet, tag, 8);
	{
		V_ALLOC(octet, s1, beltDWP_keep()); V_ALLOC(octet, s2, beltDWP_keep());
		beltDWPStart(s1, xkey, 32, xiv), beltDWPStepI(xdata, CNT, s1), beltDWPStepA(xdata, CNT, s1);
		beltDWPStart(s2, ykey, 32, yiv), beltDWPStepI(ydata, CNT, s2), beltDWPStepA(ydata, CNT, s2);
		CT_PAIR(sink = beltDWPStepV(xtag, s1), sink = beltDWPStepV(ytag, s2), "beltDWPStepV: branch trace independent of key, data and tag");
	}
	{
		V_ALLOC(octet, s1, beltCHE_keep()); V_ALLOC(octet, s2, beltCHE_keep());
		beltCHEStart(s1, xkey, 32, xiv), beltCHEStepI(xdata, CNT, s1), beltCHEStepA(xdata, CNT, s1);
		beltCHEStart(s2, ykey, 32, yiv), beltCHEStepI(ydata, CNT, s2), beltCHEStepA(ydata, CNT, s2);
		CT_PAIR(sink = beltCHEStepV(xtag, s1), sink = beltCHEStepV(ytag, s2), "beltCHEStepV: branch trace independent of key, data and tag");
	}
	V_CANARY("ct_aead");
}

/* key unwrapping: two failing tokens (the verdict itself is public) */
#define TOK 32
void h_ct_kwp(void)
{
	TWO(octet, key, 32); TWO(octet, tok, TOK); TWO(octet, hdr, 16);
	octet d1[TOK - 16], d2[TOK - 16];
	err_t e1, e2;
	CT_BEGIN(0); e1 = beltKWPUnwrap(d1, xtok, TOK, xhdr, xkey, 32); CT_END();
	CT_BEGIN(1); e2 = beltKWPUnwrap(d2, ytok, TOK, yhdr, ykey, 32); CT_END();
	V_ASSUME(e1 == ERR_BAD_KEYTOKEN && e2 == ERR_BAD_KEYTOKEN);
	V_ASSERT(ct_same(), "beltKWPUnwrap (given header): rejecting branch trace independent of key, token and header");
	V_CANARY("ct_kwp");
}
void h_ct_kwp0(void)
{
	TWO(octet, key, 32); TWO(octet, tok, TOK);
	octet d1[TOK - 16], d2[TOK - 16];
	err_t e1, e2;
	CT_BEGIN(0); e1 = beltKWPUnwrap(d1, xtok, TOK, 0, xkey, 32); CT_END();
	CT_BEGIN(1); e2 = beltKWPUnwrap(d2, ytok, TOK, 0, ykey, 32); CT_END();
	V_ASSUME(e1 == ERR_BAD_KEYTOKEN && e2 == ERR_BAD_KEYTOKEN);
	V_ASSERT(ct_same(), "beltKWPUnwrap (zero header): rejecting branch trace independent of key and token");
	V_CANARY("ct_kwp0");
}
