/* ct.h -- branch-trace recording for the constant-time (regularity) obligations of C14.
 *
 * CBMC build: goto-instrument --branch v_hook inserts a call v_hook("taken" |
 * "not-taken") at every conditional branch of the goto program (repository code and
 * harness alike); while recording is on, the decisions are appended to one of two trace
 * buffers.  Two runs of the same routine on independent symbolic VALUES with equal
 * LENGTHS must produce identical decision sequences (self-composition).
 * Native build (replay): the repository sources of the group are compiled with
 * -fsanitize-coverage=trace-pc and the sequence of basic-block PCs is hashed instead,
 * i.e. the replay observes the machine code gcc produced.
 */
#ifndef CT_H
#define CT_H
#include "verif.h"

#ifndef CT_MAX
#define CT_MAX 160
#endif
#ifdef VERIF_CBMC
static unsigned char ct_tr[2][CT_MAX];
static unsigned ct_n[2];
static int ct_on = -1;
void v_hook(const char* s)
{
	if (ct_on >= 0)
	{
		if (ct_n[ct_on] < CT_MAX)
			ct_tr[ct_on][ct_n[ct_on]] = (s[0] == 't');
		++ct_n[ct_on];
	}
}
#define CT_BEGIN(k) do { ct_n[k] = 0; ct_on = (k); } while (0)
#define CT_END() do { ct_on = -1; } while (0)
static int ct_same(void)
{
	unsigned i;
	if (ct_n[0] != ct_n[1] || ct_n[0] > CT_MAX)
		return 0;
	for (i = 0; i < CT_MAX; ++i)
		if (i < ct_n[0] && ct_tr[0][i] != ct_tr[1][i])
			return 0;
	return 1;
}
#else
#include <stdint.h>
static uint64_t ct_h[2];
static unsigned ct_n[2];
static int ct_on = -1;
__attribute__((no_sanitize_coverage)) void __sanitizer_cov_trace_pc(void)
{
	if (ct_on >= 0)
	{
		ct_h[ct_on] = (ct_h[ct_on] ^ (uint64_t)(uintptr_t)__builtin_return_address(0)) * 0x100000001B3ull;
		++ct_n[ct_on];
	}
}
#define CT_BEGIN(k) do { ct_n[k] = 0; ct_h[k] = 0xcbf29ce484222325ull; ct_on = (k); } while (0)
#define CT_END() do { ct_on = -1; } while (0)
static int ct_same(void) { return ct_n[0] == ct_n[1] && ct_h[0] == ct_h[1]; }
#endif
/* run stmt0 and stmt1 (same routine, independent values) and compare the branch traces */
#define CT_PAIR(stmt0, stmt1, msg) do { \
	CT_BEGIN(0); stmt0; CT_END(); CT_BEGIN(1); stmt1; CT_END(); \
	V_ASSERT(ct_same(), msg); } while (0)
#endif
