/* C14 obligation 2: the regular (SAFE) editions execute a branch sequence that depends
   on operand lengths only.  N words / CNT octets concrete; two independent symbolic
   value sets x, y.  NEG=1 turns the harness into the negative control: the FAST edition
   of wwCmp must FAIL the same obligation. */
#include "harness/C14/ct.h"
#include "bee2/core/mem.h"
#include "bee2/core/hex.h"
#include "bee2/core/word.h"
#include "bee2/core/u16.h"
#include "bee2/core/u32.h"
#include "bee2/core/u64.h"
#include "bee2/math/ww.h"
#include "bee2/math/zz.h"
#include "harness/ref.h"

#ifndef N
#define N 2
#endif
#define CNT (N * O_PER_W + 3)
#ifdef SAFE_FAST
#define S(f) f##_safe
#else
#define S(f) f
#endif
#define WORD_HI ((word)1 << (B_PER_W - 1))
volatile int sink;

void h_ct_cmp(void)
{
	V_IN_ARR(word, xa, N); V_IN_ARR(word, xb, N); V_IN(word, xw);
	V_IN_ARR(word, ya, N); V_IN_ARR(word, yb, N); V_IN(word, yw);
	V_IN_ARR(octet, xo, CNT); V_IN_ARR(octet, xp, CNT); V_IN(octet, xc);
	V_IN_ARR(octet, yo, CNT); V_IN_ARR(octet, yp, CNT); V_IN(octet, yc);
#ifdef NEG
	CT_PAIR(sink = FAST(wwCmp)(xa, xb, N), sink = FAST(wwCmp)(ya, yb, N), "negative control: wwCmp (FAST) is data-independent");
#else
	CT_PAIR(sink = S(wwEq)(xa, xb, N), sink = S(wwEq)(ya, yb, N), "wwEq (SAFE) branch trace independent of values");
	CT_PAIR(sink = S(wwCmp)(xa, xb, N), sink = S(wwCmp)(ya, yb, N), "wwCmp (SAFE) branch trace independent of values");
	CT_PAIR(sink = S(wwCmp2)(xa, N, xb, N - 1), sink = S(wwCmp2)(ya, N, yb, N - 1), "wwCmp2 (SAFE) n > m");
	CT_PAIR(sink = S(wwCmp2)(xa, N - 1, xb, N), sink = S(wwCmp2)(ya, N - 1, yb, N), "wwCmp2 (SAFE) n < m");
	CT_PAIR(sink = S(wwCmpW)(xa, N, xw), sink = S(wwCmpW)(ya, N, yw), "wwCmpW (SAFE)");
	CT_PAIR(sink = S(wwIsZero)(xa, N), sink = S(wwIsZero)(ya, N), "wwIsZero (SAFE)");
	CT_PAIR(sink = S(wwIsW)(xa, N, xw), sink = S(wwIsW)(ya, N, yw), "wwIsW (SAFE)");
	CT_PAIR(sink = S(wwIsRepW)(xa, N, xw), sink = S(wwIsRepW)(ya, N, yw), "wwIsRepW (SAFE)");
	CT_PAIR(sink = S(memEq)(xo, xp, CNT), sink = S(memEq)(yo, yp, CNT), "memEq (SAFE)");
	CT_PAIR(sink = S(memCmp)(xo, xp, CNT), sink = S(memCmp)(yo, yp, CNT), "memCmp (SAFE)");
	CT_PAIR(sink = S(memCmpRev)(xo, xp, CNT), sink = S(memCmpRev)(yo, yp, CNT), "memCmpRev (SAFE)");
	CT_PAIR(sink = S(memIsZero)(xo, CNT), sink = S(memIsZero)(yo, CNT), "memIsZero (SAFE)");
	CT_PAIR(sink = S(memIsRep)(xo, CNT, xc), sink = S(memIsRep)(yo, CNT, yc), "memIsRep (SAFE)");
	CT_PAIR(sink = S(zzIsSumEq)(xa, xb, ya, N), sink = S(zzIsSumEq)(ya, yb, xa, N), "zzIsSumEq (SAFE)");
	CT_PAIR(sink = S(zzIsSumWEq)(xa, xb, N, xw), sink = S(zzIsSumWEq)(ya, yb, N, yw), "zzIsSumWEq (SAFE)");
	CT_PAIR(sink = (int)S(u16CTZ)((u16)xw), sink = (int)S(u16CTZ)((u16)yw), "u16CTZ (SAFE)");
	CT_PAIR(sink = (int)S(u16CLZ)((u16)xw), sink = (int)S(u16CLZ)((u16)yw), "u16CLZ (SAFE)");
	CT_PAIR(sink = (int)S(u32CTZ)((u32)xw), sink = (int)S(u32CTZ)((u32)yw), "u32CTZ (SAFE)");
	CT_PAIR(sink = (int)S(u32CLZ)((u32)xw), sink = (int)S(u32CLZ)((u32)yw), "u32CLZ (SAFE)");
	CT_PAIR(sink = (int)S(u64CTZ)((u64)xw), sink = (int)S(u64CTZ)((u64)yw), "u64CTZ (SAFE)");
	CT_PAIR(sink = (int)S(u64CLZ)((u64)xw), sink = (int)S(u64CLZ)((u64)yw), "u64CLZ (SAFE)");
#endif
	V_CANARY("ct_cmp");
}

void h_ct_mod(void)
{
	V_IN_ARR(word, xa, N); V_IN_ARR(word, xb, N); V_IN_ARR(word, xm, N); V_IN(word, xw);
	V_IN_ARR(word, ya, N); V_IN_ARR(word, yb, N); V_IN_ARR(word, ym, N); V_IN(word, yw);
	word XC[N], YC[N], XW[N], YW[N];
	size_t i;
	for (i = 0; i < N; ++i) XW[i] = i ? 0 : xw, YW[i] = i ? 0 : yw;
	V_TWEAK(xm, xm[N - 1] |= WORD_HI; xm[0] |= 1);
	V_TWEAK(ym, ym[N - 1] |= WORD_HI; ym[0] |= 1);
	V_TWEAK(xa, xa[N - 1] &= WORD_HI - 1); V_TWEAK(xb, xb[N - 1] &= WORD_HI - 1);
	V_TWEAK(ya, ya[N - 1] &= WORD_HI - 1); V_TWEAK(yb, yb[N - 1] &= WORD_HI - 1);
	V_ASSUME(r_cmp(xa, xm, N) < 0 && r_cmp(xb, xm, N) < 0 && r_cmp(ya, ym, N) < 0 && r_cmp(yb, ym, N) < 0);
	V_ASSUME((xm[0] & 1) && (ym[0] & 1) && xm[N - 1] && ym[N - 1]);
	V_ASSUME(r_cmp(XW, xm, N) < 0 && r_cmp(YW, ym, N) < 0);
	CT_PAIR(S(zzAddMod)(XC, xa, xb, xm, N), S(zzAddMod)(YC, ya, yb, ym, N), "zzAddMod (SAFE)");
	CT_PAIR(S(zzSubMod)(XC, xa, xb, xm, N), S(zzSubMod)(YC, ya, yb, ym, N), "zzSubMod (SAFE)");
	CT_PAIR(S(zzAddWMod)(XC, xa, xw, xm, N), S(zzAddWMod)(YC, ya, yw, ym, N), "zzAddWMod (SAFE)");
	CT_PAIR(S(zzSubWMod)(XC, xa, xw, xm, N), S(zzSubWMod)(YC, ya, yw, ym, N), "zzSubWMod (SAFE)");
	CT_PAIR(S(zzNegMod)(XC, xa, xm, N), S(zzNegMod)(YC, ya, ym, N), "zzNegMod (SAFE)");
	CT_PAIR(S(zzDoubleMod)(XC, xa, xm, N), S(zzDoubleMod)(YC, ya, ym, N), "zzDoubleMod (SAFE)");
	CT_PAIR(S(zzHalfMod)(XC, xa, xm, N), S(zzHalfMod)(YC, ya, ym, N), "zzHalfMod (SAFE)");
	V_CANARY("ct_mod");
}
