/* C10 (level N, NOT proof): every belt bundle with a Start/Step interface, message cut into THREE fragments of
   generated lengths (0..50 each, so that every fill level of the 16-octet buffers and the "leftover keystream
   spilled over by the next fragment" paths are met), against the one-shot high-level function; states in
   objects of exactly _keep() octets. */
#include "verif.h"
#include "bee2/crypto/belt.h"
#include "bee2/core/err.h"
#include "bee2/core/mem.h"

#define FMAX 50
void h_frag3(void)
{
	V_IN_ARR(octet, data, 3 * FMAX); V_IN_ARR(octet, ad, 3 * FMAX); V_IN_ARR(octet, key, 32); V_IN_ARR(octet, iv, 16);
	V_IN(unsigned, fa); V_IN(unsigned, fb); V_IN(unsigned, sel);
	V_NATIVE_ONLY({
		size_t a = fa % (FMAX + 1), b = (fa >> 8) % (FMAX + 1), c = (fa >> 16) % (FMAX + 1), n = a + b + c;
		size_t p = fb % (FMAX + 1), q = (fb >> 8) % (FMAX + 1), m = p + q, klen = 16 + 8 * (sel % 3);
		octet o1[3 * FMAX], o2[3 * FMAX], m1[32], m2[32];
		/* small fragments carry most of the weight */
		if (sel & 8) a %= 18; if (sel & 16) b = 16 * (1 + b % 2) - a % 16 + (b % 3) - 1; if (sel & 32) c %= 3;
		if (b > FMAX) b = FMAX; n = a + b + c;
		{ /* CHE */
			V_ALLOC(octet, st, beltCHE_keep());
			V_ASSERT(beltCHEWrap(o1, m1, data, n, ad, m, key, klen, iv) == ERR_OK, "beltCHEWrap");
			memcpy(o2, data, n);
			beltCHEStart(st, key, klen, iv); beltCHEStepI(ad, p, st); beltCHEStepI(ad + p, q, st);
			beltCHEStepE(o2, a, st); beltCHEStepE(o2 + a, b, st); beltCHEStepE(o2 + a + b, c, st);
			beltCHEStepA(o2, a, st); beltCHEStepA(o2 + a, b, st); beltCHEStepA(o2 + a + b, c, st);
			beltCHEStepG(m2, st);
			V_ASSERT(memcmp(o1, o2, n) == 0 && memcmp(m1, m2, 8) == 0, "CHE: three-fragment encryption + tag == one-shot");
			beltCHEStart(st, key, klen, iv); beltCHEStepI(ad, m, st);
			beltCHEStepA(o1, a, st); beltCHEStepA(o1 + a, b + c, st);
			beltCHEStepD(o1, a, st); beltCHEStepD(o1 + a, b, st); beltCHEStepD(o1 + a + b, c, st);
			V_ASSERT(memcmp(o1, data, n) == 0 && beltCHEStepV(m1, st), "CHE: three-fragment decryption inverts, tag verifies");
		}
		{ /* DWP */
			V_ALLOC(octet, st, beltDWP_keep());
			V_ASSERT(beltDWPWrap(o1, m1, data, n, ad, m, key, klen, iv) == ERR_OK, "beltDWPWrap");
			memcpy(o2, data, n);
			beltDWPStart(st, key, klen, iv); beltDWPStepI(ad, p, st); beltDWPStepI(ad + p, q, st);
			beltDWPStepE(o2, a, st); beltDWPStepE(o2 + a, b, st); beltDWPStepE(o2 + a + b, c, st);
			beltDWPStepA(o2, a, st); beltDWPStepA(o2 + a, b, st); beltDWPStepA(o2 + a + b, c, st);
			beltDWPStepG(m2, st);
			V_ASSERT(memcmp(o1, o2, n) == 0 && memcmp(m1, m2, 8) == 0, "DWP: three-fragment encryption + tag == one-shot");
		}
		{ /* CTR, CFB */
			V_ALLOC(octet, st, beltCTR_keep()); V_ALLOC(octet, st2, beltCFB_keep());
			V_ASSERT(beltCTR(o1, data, n, key, klen, iv) == ERR_OK, "beltCTR");
			memcpy(o2, data, n); beltCTRStart(st, key, klen, iv); beltCTRStepE(o2, a, st); beltCTRStepE(o2 + a, b, st); beltCTRStepE(o2 + a + b, c, st);
			V_ASSERT(memcmp(o1, o2, n) == 0, "CTR: three fragments == one-shot");
			V_ASSERT(beltCFBEncr(o1, data, n, key, klen, iv) == ERR_OK, "beltCFBEncr");
			memcpy(o2, data, n); beltCFBStart(st2, key, klen, iv); beltCFBStepE(o2, a, st2); beltCFBStepE(o2 + a, b, st2); beltCFBStepE(o2 + a + b, c, st2);
			V_ASSERT(memcmp(o1, o2, n) == 0, "CFB: three fragments == one-shot");
			beltCFBStart(st2, key, klen, iv); beltCFBStepD(o2, a, st2); beltCFBStepD(o2 + a, b, st2); beltCFBStepD(o2 + a + b, c, st2);
			V_ASSERT(memcmp(o2, data, n) == 0, "CFB: three-fragment decryption inverts");
		}
		{ /* MAC, HMAC, Hash */
			V_ALLOC(octet, st, beltMAC_keep()); V_ALLOC(octet, st2, beltHMAC_keep()); V_ALLOC(octet, st3, beltHash_keep());
			V_ASSERT(beltMAC(m1, data, n, key, klen) == ERR_OK, "beltMAC");
			beltMACStart(st, key, klen); beltMACStepA(data, a, st); beltMACStepA(data + a, b, st); beltMACStepA(data + a + b, c, st); beltMACStepG(m2, st);
			V_ASSERT(memcmp(m1, m2, 8) == 0, "MAC: three fragments == one-shot");
			V_ASSERT(beltHMAC(m1, data, n, key, klen) == ERR_OK, "beltHMAC");
			beltHMACStart(st2, key, klen); beltHMACStepA(data, a, st2); beltHMACStepA(data + a, b, st2); beltHMACStepA(data + a + b, c, st2); beltHMACStepG(m2, st2);
			V_ASSERT(memcmp(m1, m2, 32) == 0, "HMAC: three fragments == one-shot");
			V_ASSERT(beltHash(m1, data, n) == ERR_OK, "beltHash");
			beltHashStart(st3); beltHashStepH(data, a, st3); beltHashStepH(data + a, b, st3); beltHashStepH(data + a + b, c, st3); beltHashStepG(m2, st3);
			V_ASSERT(memcmp(m1, m2, 32) == 0, "Hash: three fragments == one-shot");
		}
	})
	(void)fa; (void)fb; (void)sel;
	V_CANARY("frag3");
}
