/* C10 groups bash.*: bash hash and the programmable automaton: one fragment vs three
   fragments (with Get / relocation in between) and Decr o Encr == id under the same command
   history.  Level l, capacity d and the fragment lengths are drawn per run (native only:
   the 1536-bit permutation with two full runs is far beyond the CBMC queries measured). */
#include "verif.h"
#include "bee2/core/mem.h"
#include "bee2/crypto/bash.h"

#define MAXD 420
static int o_eq(const octet* a, const octet* b, size_t n) { size_t i; for (i = 0; i < n; ++i) if (a[i] != b[i]) return 0; return 1; }
#define RELOCATE(st, keep) { V_ALLOC(octet, st##_moved, keep); memcpy(st##_moved, st, keep); memset(st, 0xA5, keep); st = st##_moved; }

void h_bash_hash(void)
{
	V_IN_ARR(octet, d0, MAXD); V_IN(unsigned short, lx); V_IN(unsigned short, ly); V_IN(unsigned short, lz); V_IN(unsigned char, lv);
	octet h1[64], h2[64], h3[64];
	size_t l, hl;
	V_TWEAK(lv, lv = (unsigned char)(1 + lv % 16));
	V_ASSUME(lv >= 1 && lv <= 16);
	l = 16 * (size_t)lv; hl = l / 4;
	/* fragment lengths around the rate 192 - l / 2 */
	V_TWEAK(lx, lx = (unsigned short)((v_rand() % 2) ? (192 - l / 2) - 1 + v_rand() % 3 : lx % 140));
	V_TWEAK(ly, ly = (unsigned short)((v_rand() % 3) ? ly % 140 : 0));
	V_TWEAK(lz, lz = (unsigned short)(lz % 140));
	V_ASSUME((size_t)lx + ly + lz <= MAXD);
	{
		V_ALLOC(octet, s1, bashHash_keep()); V_ALLOC(octet, s2, bashHash_keep());
		bashHashStart(s1, l); bashHashStepH(d0, (size_t)lx + ly + lz, s1); bashHashStepG(h1, hl, s1);
		bashHashStart(s2, l); bashHashStepH(d0, lx, s2);
		bashHashStepG(h3, hl, s2);                      /* Get-then-continue */
		RELOCATE(s2, bashHash_keep())
		bashHashStepH(d0 + lx, ly, s2); bashHashStepH(d0 + lx + ly, lz, s2); bashHashStepG(h2, hl, s2);
		V_ASSERT(o_eq(h1, h2, hl), "bash hash: one fragment == three fragments with a Get and a relocation in between");
		V_ASSERT(bashHashStepV(h1, hl, s2), "bashHashStepV accepts the hash");
		{ octet hh[64]; V_ASSERT(bashHash(hh, l, d0, (size_t)lx + ly + lz) == 0 && o_eq(hh, h1, hl), "bashHash == Start/StepH/StepG"); }
	}
	V_CANARY("bash_hash");
}

void h_bash_prg(void)
{
	V_IN_ARR(octet, d0, MAXD); V_IN_ARR(octet, key, 60); V_IN_ARR(octet, ann, 60);
	V_IN(unsigned short, lx); V_IN(unsigned short, ly); V_IN(unsigned short, lz); V_IN(unsigned char, lv); V_IN(unsigned char, dv);
	octet a[MAXD], b[MAXD], c[MAXD], t1[32], t2[32];
	size_t l, d, n, rate;
	V_TWEAK(lv, lv %= 3); V_TWEAK(dv, dv %= 2);
	V_ASSUME(lv <= 2 && dv <= 1);
	l = 128 + 64 * (size_t)lv; d = 1 + dv; rate = 192 - d * l / 4 - l / 8;   /* keyed mode buffer length is implementation detail: lengths only straddle it */
	V_TWEAK(lx, lx = (unsigned short)((v_rand() % 2) ? 1 + v_rand() % 5 : lx % 200));
	V_TWEAK(ly, ly = (unsigned short)((v_rand() % 2) ? (rate > 8 ? rate - 4 + v_rand() % 8 : 1) : ly % 200));
	V_TWEAK(lz, lz = (unsigned short)(lz % 20));
	V_ASSUME((size_t)lx + ly + lz <= MAXD);
	n = (size_t)lx + ly + lz;
	{
		V_ALLOC(octet, s1, bashPrg_keep()); V_ALLOC(octet, s2, bashPrg_keep()); V_ALLOC(octet, s3, bashPrg_keep());
		memcpy(a, d0, n); memcpy(b, d0, n);
		/* one call per command */
		bashPrgStart(s1, l, d, ann, 16, key, 32);
		bashPrgAbsorb(d0, n, s1); bashPrgEncr(a, n, s1); bashPrgSqueeze(t1, 32, s1);
		/* the same command history in fragments, state relocated */
		bashPrgStart(s2, l, d, ann, 16, key, 32);
		bashPrgAbsorbStart(s2); bashPrgAbsorbStep(d0, lx, s2); bashPrgAbsorbStep(d0 + lx, ly, s2); bashPrgAbsorbStep(d0 + lx + ly, lz, s2);
		bashPrgEncrStart(s2); bashPrgEncrStep(b, lx, s2);
		RELOCATE(s2, bashPrg_keep())
		bashPrgEncrStep(b + lx, ly, s2); bashPrgEncrStep(b + lx + ly, lz, s2);
		bashPrgSqueezeStart(s2); bashPrgSqueezeStep(t2, 7, s2); bashPrgSqueezeStep(t2 + 7, 25, s2);
		V_ASSERT(o_eq(a, b, n), "bash prg: encryption independent of the fragmentation");
		V_ASSERT(o_eq(t1, t2, 32), "bash prg: squeezed output independent of the fragmentation");
		/* decryption inverts encryption under the same command history (fragmented differently) */
		memcpy(c, b, n);
		bashPrgStart(s3, l, d, ann, 16, key, 32);
		bashPrgAbsorb(d0, n, s3);
		bashPrgDecrStart(s3); bashPrgDecrStep(c, lz, s3); bashPrgDecrStep(c + lz, lx, s3); bashPrgDecrStep(c + lz + lx, ly, s3);
		V_ASSERT(o_eq(c, d0, n), "bash prg: DecrStep inverts EncrStep under the same command history");
	}
	V_CANARY("bash_prg");
}
