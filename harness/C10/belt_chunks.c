/* C10 groups belt.*: every Start/Step/Get bundle of belt gives the same result for the data
   given in one fragment x||y and in two fragments x, y (optionally with a Get/Verify call
   between them), and a relocated state continues identically.  |x| = LX, |y| = LY concrete
   (every fill level of the 16/32-octet internal buffer is reached by enumerating LX);
   key, IV and contents symbolic; states are objects of exactly beltXXX_keep() octets.
   Block function: uninterpreted under CBMC (stubs/belt_uf.c), real natively. */
#include "verif.h"
#include "bee2/core/mem.h"
#include "bee2/crypto/belt.h"

#ifndef LX
#define LX 17
#endif
#ifndef LY
#define LY 16
#endif
#ifndef LZ
#define LZ 0
#endif
#define LT (LX + LY + LZ)
#define C1(n) ((n) ? (n) : 1)

static int o_eq(const octet* a, const octet* b, size_t n)
{
	size_t i;
	for (i = 0; i < n; ++i) if (a[i] != b[i]) return 0;
	return 1;
}
static void o_copy(octet* d, const octet* s, size_t n) { size_t i; for (i = 0; i < n; ++i) d[i] = s[i]; }

#define INPUTS \
	V_IN_ARR(octet, key, 32); V_IN_ARR(octet, iv, 16); V_IN_ARR(octet, d0, C1(LT)); \
	octet a[C1(LT)], b[C1(LT)]; \
	o_copy(a, d0, LT), o_copy(b, d0, LT)
/* relocate: copy the state to a fresh object of the same exact size, scribble over the original */
#define RELOCATE(st, keep) \
	{ V_ALLOC(octet, st##_moved, keep); memcpy(st##_moved, st, keep); memset(st, 0xA5, keep); st = st##_moved; }

/* stream-like bundles: Step(x||y) == Step(x); Step(y) */
#define STREAM(NAME, keep, START, STEP) \
void h_##NAME(void) \
{ \
	INPUTS; \
	V_ALLOC(octet, s1, keep); V_ALLOC(octet, s2, keep); \
	START(s1); STEP(a, LT, s1); \
	START(s2); STEP(b, LX, s2); \
	RELOCATE(s2, keep) \
	STEP(b + LX, LY, s2); \
	if (LZ) STEP(b + LX + LY, LZ, s2); \
	V_ASSERT(o_eq(a, b, LT), #NAME ": one fragment == two / three fragments (state relocated in between)"); \
	V_CANARY(#NAME); \
}
#define CFBSTART(st) beltCFBStart(st, key, 32, iv)
#define CTRSTART(st) beltCTRStart(st, key, 32, iv)
STREAM(cfb_e, beltCFB_keep(), CFBSTART, beltCFBStepE)
STREAM(cfb_d, beltCFB_keep(), CFBSTART, beltCFBStepD)
STREAM(ctr, beltCTR_keep(), CTRSTART, beltCTRStepE)

/* absorbing bundles with a Get: Get(x||y) == Get after x, [Get,] y */
#define ABSORB(NAME, keep, START, STEPA, GET, OUTLEN) \
void h_##NAME(void) \
{ \
	INPUTS; \
	octet g1[OUTLEN], g2[OUTLEN], g3[OUTLEN]; \
	V_ALLOC(octet, s1, keep); V_ALLOC(octet, s2, keep); \
	START(s1); STEPA(a, LT, s1); GET(g1, s1); \
	START(s2); STEPA(b, LX, s2); \
	GET(g3, s2);                       /* Get-then-continue must not disturb the running state */ \
	RELOCATE(s2, keep) \
	STEPA(b + LX, LY, s2); if (LZ) STEPA(b + LX + LY, LZ, s2); GET(g2, s2); \
	V_ASSERT(o_eq(g1, g2, OUTLEN), #NAME ": one fragment == two fragments with a Get and a relocation in between"); \
	GET(g3, s2); \
	V_ASSERT(o_eq(g3, g2, OUTLEN), #NAME ": Get is repeatable"); \
	V_CANARY(#NAME); \
}
#define MACSTART(st) beltMACStart(st, key, 32)
#define HASHSTART(st) beltHashStart(st)
#define HMACSTART(st) beltHMACStart(st, key, 32)
ABSORB(mac, beltMAC_keep(), MACSTART, beltMACStepA, beltMACStepG, 8)
ABSORB(hash, beltHash_keep(), HASHSTART, beltHashStepH, beltHashStepG, 32)
ABSORB(hmac, beltHMAC_keep(), HMACSTART, beltHMACStepA, beltHMACStepG, 32)

/* AEAD bundles: associated data i0 (split LX/LY), critical data (split LX/LY) */
#define AEAD(NAME, PFX) \
void h_##NAME(void) \
{ \
	INPUTS; \
	V_IN_ARR(octet, i0, C1(LT)); \
	octet m1[8], m2[8]; \
	V_ALLOC(octet, s1, PFX##_keep()); V_ALLOC(octet, s2, PFX##_keep()); \
	PFX##Start(s1, key, 32, iv); PFX##StepI(i0, LT, s1); PFX##StepE(a, LT, s1); PFX##StepA(a, LT, s1); PFX##StepG(m1, s1); \
	PFX##Start(s2, key, 32, iv); PFX##StepI(i0, LX, s2); PFX##StepI(i0 + LX, LY, s2); \
	PFX##StepE(b, LX, s2); PFX##StepA(b, LX, s2); \
	RELOCATE(s2, PFX##_keep()) \
	PFX##StepE(b + LX, LY, s2); PFX##StepA(b + LX, LY, s2); PFX##StepG(m2, s2); \
	V_ASSERT(o_eq(a, b, LT), #NAME ": ciphertext independent of the fragmentation"); \
	V_ASSERT(o_eq(m1, m2, 8), #NAME ": tag independent of the fragmentation"); \
	V_ASSERT(PFX##StepV(m1, s2), #NAME ": StepV accepts the tag it produced"); \
	/* decrypt in two fragments with the same state type */ \
	PFX##Start(s1, key, 32, iv); PFX##StepD(b, LX, s1); PFX##StepD(b + LX, LY, s1); \
	V_ASSERT(o_eq(b, d0, LT), #NAME ": StepD inverts StepE"); \
	V_CANARY(#NAME); \
}
AEAD(dwp, beltDWP)
AEAD(che, beltCHE)

/* block-aligned bundles: ECB / CBC (fragments >= 16, ragged tail only last), BDE (whole blocks) */
#if (LX >= 16 && LX % 16 == 0 && LY >= 16)
#define BLOCKY(NAME, keep, START, STEPE, STEPD) \
void h_##NAME(void) \
{ \
	INPUTS; \
	V_ALLOC(octet, s1, keep); V_ALLOC(octet, s2, keep); \
	START(s1); STEPE(a, LT, s1); \
	START(s2); STEPE(b, LX, s2); RELOCATE(s2, keep) STEPE(b + LX, LY, s2); \
	V_ASSERT(o_eq(a, b, LT), #NAME ": one fragment == two fragments"); \
	START(s1); STEPD(b, LX, s1); STEPD(b + LX, LY, s1); \
	V_ASSERT(o_eq(b, d0, LT), #NAME ": StepD in two fragments inverts StepE"); \
	V_CANARY(#NAME); \
}
#define ECBSTART(st) beltECBStart(st, key, 32)
#define CBCSTART(st) beltCBCStart(st, key, 32, iv)
#define BDESTART(st) beltBDEStart(st, key, 32, iv)
BLOCKY(ecb, beltECB_keep(), ECBSTART, beltECBStepE, beltECBStepD)
BLOCKY(cbc, beltCBC_keep(), CBCSTART, beltCBCStepE, beltCBCStepD)
#if (LY % 16 == 0)
BLOCKY(bde, beltBDE_keep(), BDESTART, beltBDEStepE, beltBDEStepD)
#endif
#endif
