/* C10 (level N, NOT proof): generators and one-time passwords with a Start/Step interface.
   brng-ctr / brng-hmac: three fragments of generated lengths (0..100 each) against the one-shot function;
   botp HOTP: every script of up to six operations over {R, V+ (right password), V- (wrong password), G} against
   the one-shot botpHOTPRand on an independently tracked counter. */
#include "verif.h"
#include "bee2/crypto/brng.h"
#include "bee2/crypto/botp.h"
#include "bee2/core/err.h"
#include "bee2/core/mem.h"

#define GMAX 100
void h_frag_gen(void)
{
	V_IN_ARR(octet, key, 32); V_IN_ARR(octet, iv, 64); V_IN_ARR(octet, fill, 3 * GMAX); V_IN(unsigned, fa); V_IN(unsigned, sel); V_IN_ARR(octet, script, 6);
	V_NATIVE_ONLY({
		size_t a = fa % (GMAX + 1), b = (fa >> 8) % (GMAX + 1), c = (fa >> 16) % (GMAX + 1), n, ivl = sel % 65, i;
		octet o1[3 * GMAX], o2[3 * GMAX], iv1[32], iv2[32];
		if (sel & 256) a = a % 33; if (sel & 512) b = 32 * (1 + b % 2) - a % 32 + b % 3 - 1; if (b > GMAX) b = GMAX;
		n = a + b + c;
		{ /* brng-ctr */
			V_ALLOC(octet, st, brngCTR_keep());
			/* zero additional word X: with a non-zero buffer the fragmentation is visible by design (brng.h: octets served from the
			   reserve are not absorbed into X), so only X = 0 makes fragmentations comparable */
			memset(o1, 0, n); memset(o2, 0, n); memcpy(iv1, iv, 32);
			V_ASSERT(brngCTRRand(o1, n, key, iv1) == ERR_OK, "brngCTRRand");
			brngCTRStart(st, key, iv); brngCTRStepR(o2, a, st); brngCTRStepR(o2 + a, b, st); brngCTRStepR(o2 + a + b, c, st); brngCTRStepG(iv2, st);
			V_ASSERT(memcmp(o1, o2, n) == 0, "brng-ctr: three fragments == one-shot");
			V_ASSERT(memcmp(iv1, iv2, 32) == 0, "brng-ctr: returned synchro value == one-shot");
		}
		{ /* brng-hmac */
			V_ALLOC(octet, st, brngHMAC_keep());
			V_ASSERT(brngHMACRand(o1, n, key, 32, iv, ivl) == ERR_OK, "brngHMACRand");
			brngHMACStart(st, key, 32, iv, ivl); brngHMACStepR(o2, a, st); brngHMACStepR(o2 + a, b, st); brngHMACStepR(o2 + a + b, c, st);
			V_ASSERT(memcmp(o1, o2, n) == 0, "brng-hmac: three fragments == one-shot");
		}
		{ /* botp HOTP */
			octet ctr[8], g[8]; char otp[10], ref[10]; size_t digit = 6 + (sel >> 12) % 3; int k;
			V_ALLOC(octet, st, botpHOTP_keep());
			memcpy(ctr, iv, 8); if (sel & 1024) memset(ctr + 1, 0xFF, 7);     /* carries across octets */
			botpHOTPStart(st, digit, key, 32); botpHOTPStepS(st, ctr);
			for (i = 0; i < 6; ++i)
			{
				V_ASSERT(botpHOTPRand(ref, digit, key, 32, ctr) == ERR_OK, "botpHOTPRand");
				switch (script[i] % 4)
				{
				case 0: botpHOTPStepR(otp, st); V_ASSERT(strcmp(otp, ref) == 0, "HOTP StepR == one-shot password at the tracked counter");
					for (k = 7; k >= 0 && ++ctr[k] == 0; --k); break;
				case 1: V_ASSERT(botpHOTPStepV(ref, st), "HOTP StepV accepts the right password"); for (k = 7; k >= 0 && ++ctr[k] == 0; --k); break;
				case 2: memcpy(otp, ref, digit + 1); otp[script[i] % digit] = (char)('0' + (otp[script[i] % digit] - '0' + 1 + script[i] % 9) % 10);
					V_ASSERT(!botpHOTPStepV(otp, st), "HOTP StepV rejects a wrong password"); break;
				case 3: botpHOTPStepG(g, st); V_ASSERT(memcmp(g, ctr, 8) == 0, "HOTP StepG == tracked counter (a failed verification does not move it)"); break;
				}
			}
			botpHOTPStepG(g, st); V_ASSERT(memcmp(g, ctr, 8) == 0, "HOTP: final counter == tracked counter");
		}
	})
	(void)fa; (void)sel;
	V_CANARY("frag_gen");
}
