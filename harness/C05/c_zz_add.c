/* entry points for the contract (dfcc) groups of zz_add.c: one call per function,
   arguments unconstrained -- the contract's requires clauses construct them */
#include "contracts/zz_add.h"
#define CANARY __CPROVER_assert(0, "canary: requires satisfiable and the call returns")
#define H3(f) void h_##f(void) { word *c, *a, *b; size_t n; f(c, a, b, n); CANARY; }
#define H2(f) void h_##f(void) { word *a, *b; size_t n; f(b, a, n); CANARY; }
#define H2W(f) void h_##f(void) { word *a, *b; size_t n; word w; f(b, a, n, w); CANARY; }
#define H1W(f) void h_##f(void) { word *a; size_t n; word w; f(a, n, w); CANARY; }
H3(zzAdd) H3(zzSub) H2(zzAdd2) H2(zzSub2) H2W(zzAddW) H2W(zzSubW) H1W(zzAddW2) H1W(zzSubW2)
H2(zzNeg) H3(zzIsSumEq) H3(zzIsSumEq_fast) H2W(zzIsSumWEq) H2W(zzIsSumWEq_fast)
