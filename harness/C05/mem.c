/* C05 groups mem.*: functions of src/core/mem.c against the descriptions in mem.h.
   Buffer length CNT octets (concrete), contents symbolic; both editions where shipped. */
#include "verif.h"
#include "bee2/core/mem.h"
#include "bee2/core/word.h"

#ifndef CNT
#define CNT 9
#endif
#define CC (CNT ? CNT : 1)

static int o_cmp(const octet* a, const octet* b, size_t n)
{
	size_t i;
	for (i = 0; i < n; ++i)
		if (a[i] != b[i])
			return a[i] < b[i] ? -1 : 1;
	return 0;
}
static int o_cmprev(const octet* a, const octet* b, size_t n)
{
	size_t i;
	for (i = n; i--;)
		if (a[i] != b[i])
			return a[i] < b[i] ? -1 : 1;
	return 0;
}
static void o_copy(octet* b, const octet* a, size_t n)
{
	size_t i;
	for (i = 0; i < n; ++i) b[i] = a[i];
}
#define SGN(x) ((x) < 0 ? -1 : (x) > 0 ? 1 : 0)

void h_mem(void)
{
	V_IN_ARR(octet, a0, CC);
	V_IN_ARR(octet, b0, CC);
	V_IN(octet, o);
	size_t i;
	/* word-aligned objects of exactly CNT octets */
	V_BUF(octet, A, CNT);
	V_BUF(octet, B, CNT);
	V_BUF(octet, C, CNT);
	{	/* memCopy, memMove (disjoint), memSet, memNeg */
		int ok = 1;
		o_copy(A, a0, CNT);
		memCopy(B, A, CNT);
		V_ASSERT(o_cmp(B, a0, CNT) == 0 && o_cmp(A, a0, CNT) == 0, "memCopy dest == src");
		o_copy(B, b0, CNT);
		memMove(B, A, CNT);
		V_ASSERT(o_cmp(B, a0, CNT) == 0, "memMove dest == src");
		memSet(B, o, CNT);
		for (i = 0; i < CNT; ++i) ok &= (B[i] == o);
		V_ASSERT(ok, "memSet fills with o");
		o_copy(B, b0, CNT);
		memNeg(B, CNT);
		for (ok = 1, i = 0; i < CNT; ++i) ok &= (B[i] == (octet)~b0[i]);
		V_ASSERT(ok, "memNeg inverts every octet");
	}
	{	/* comparisons: both editions */
		int e = o_cmp(a0, b0, CNT), er = o_cmprev(a0, b0, CNT);
		o_copy(A, a0, CNT), o_copy(B, b0, CNT);
		V_ASSERT(memEq(A, B, CNT) == (e == 0), "memEq (SAFE)");
		V_ASSERT(FAST(memEq)(A, B, CNT) == (e == 0), "memEq (FAST)");
		V_ASSERT(SGN(memCmp(A, B, CNT)) == e, "memCmp (SAFE) lexicographic from the first octet");
		V_ASSERT(SGN(FAST(memCmp)(A, B, CNT)) == e, "memCmp (FAST) lexicographic from the first octet");
		V_ASSERT(SGN(memCmpRev(A, B, CNT)) == er, "memCmpRev (SAFE) lexicographic from the last octet");
		V_ASSERT(SGN(FAST(memCmpRev)(A, B, CNT)) == er, "memCmpRev (FAST) lexicographic from the last octet");
		V_ASSERT(memEq(A, A, CNT) == 1 && memCmp(A, A, CNT) == 0 && memCmpRev(A, A, CNT) == 0, "comparisons reflexive");
	}
	{	/* memIsZero, memNonZeroSize, memIsRep */
		int z = 1, rep = 1;
		size_t nz = 0;
		for (i = 0; i < CNT; ++i) z &= (a0[i] == 0), rep &= (a0[i] == o), nz = a0[i] ? i + 1 : nz;
		o_copy(A, a0, CNT);
		V_ASSERT(memIsZero(A, CNT) == z, "memIsZero (SAFE)");
		V_ASSERT(FAST(memIsZero)(A, CNT) == z, "memIsZero (FAST)");
		V_ASSERT(memNonZeroSize(A, CNT) == nz, "memNonZeroSize");
		V_ASSERT(memIsRep(A, CNT, o) == rep, "memIsRep (SAFE)");
		V_ASSERT(FAST(memIsRep)(A, CNT, o) == rep, "memIsRep (FAST)");
	}
	{	/* memXor (disjoint / dest==src1 / dest==src2), memXor2, memSwap, memRev */
		int ok = 1;
		o_copy(A, a0, CNT), o_copy(B, b0, CNT);
		memXor(C, A, B, CNT);
		for (i = 0; i < CNT; ++i) ok &= (C[i] == (a0[i] ^ b0[i]));
		V_ASSERT(ok, "memXor dest == src1 ^ src2");
		memXor(A, A, B, CNT);
		V_ASSERT(o_cmp(A, C, CNT) == 0, "memXor in place (dest == src1)");
		o_copy(A, a0, CNT);
		memXor(B, A, B, CNT);
		V_ASSERT(o_cmp(B, C, CNT) == 0, "memXor in place (dest == src2)");
		o_copy(B, b0, CNT);
		memXor2(B, A, CNT);
		V_ASSERT(o_cmp(B, C, CNT) == 0, "memXor2 dest ^= src");
		o_copy(B, b0, CNT);
		memSwap(A, B, CNT);
		V_ASSERT(o_cmp(A, b0, CNT) == 0 && o_cmp(B, a0, CNT) == 0, "memSwap exchanges the buffers");
		o_copy(A, a0, CNT);
		memRev(A, CNT);
		for (ok = 1, i = 0; i < CNT; ++i) ok &= (A[i] == a0[CNT - 1 - i]);
		V_ASSERT(ok, "memRev reverses the octets");
	}
	V_CANARY("mem");
}

/* memMove / memJoin inside one arena: every relative placement (symbolic offsets, concrete counts),
   result compared with the disjoint-buffer result (also serves C11) */
#ifndef C1
#define C1 3
#endif
#ifndef C2
#define C2 2
#endif
#define ARENA (3 * (C1 + C2) + 2)

void h_mem_join(void)
{
	V_IN_ARR(octet, ar0, ARENA);
	V_IN(unsigned char, OFF_D);
	V_IN(unsigned char, OFF_1);
	V_IN(unsigned char, OFF_2);
	octet AR[ARENA], E[C1 + C2 + 1];
	size_t i;
	V_TWEAK(OFF_D, OFF_D %= ARENA - C1 - C2 + 1);
	V_TWEAK(OFF_1, OFF_1 %= ARENA - C1 + 1);
	V_TWEAK(OFF_2, OFF_2 %= ARENA - C2 + 1);
	V_ASSUME(OFF_D + C1 + C2 <= ARENA && OFF_1 + C1 <= ARENA && OFF_2 + C2 <= ARENA);
	o_copy(AR, ar0, ARENA);
	for (i = 0; i < C1; ++i) E[i] = ar0[OFF_1 + i];
	for (i = 0; i < C2; ++i) E[C1 + i] = ar0[OFF_2 + i];
	memJoin(AR + OFF_D, AR + OFF_1, C1, AR + OFF_2, C2);
	V_ASSERT(o_cmp(AR + OFF_D, E, C1 + C2) == 0, "memJoin dest == src1 || src2 for overlapping buffers");
	{
		int ok = 1;
		for (i = 0; i < ARENA; ++i)
			if (i < OFF_D || i >= OFF_D + C1 + C2)
				ok &= (AR[i] == ar0[i]);
		V_ASSERT(ok, "memJoin writes only dest");
	}
	V_CANARY("mem_join");
}

void h_mem_move(void)
{
	V_IN_ARR(octet, ar0, ARENA);
	V_IN(unsigned char, OFF_D);
	V_IN(unsigned char, OFF_1);
	octet AR[ARENA];
	size_t i;
	int ok = 1;
	V_TWEAK(OFF_D, OFF_D %= ARENA - C1 + 1);
	V_TWEAK(OFF_1, OFF_1 %= ARENA - C1 + 1);
	V_ASSUME(OFF_D + C1 <= ARENA && OFF_1 + C1 <= ARENA);
	o_copy(AR, ar0, ARENA);
	memMove(AR + OFF_D, AR + OFF_1, C1);
	for (i = 0; i < ARENA; ++i)
		ok &= (AR[i] == ((i >= OFF_D && i < OFF_D + C1) ? ar0[OFF_1 + i - OFF_D] : ar0[i]));
	V_ASSERT(ok, "memMove with overlapping buffers == disjoint result, writes only dest");
	V_CANARY("mem_move");
}
