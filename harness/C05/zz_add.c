/* C05 group zz_add: every function of src/math/zz/zz_add.c against the formula in
   zz.h, operand length N words (concrete), contents symbolic, aliasing pattern ALIAS:
   0 disjoint, 1 c==a, 2 c==b, 3 a==b (c distinct), 4 a==b==c. */
#include "verif.h"
#include "bee2/math/zz.h"
#include "bee2/math/ww.h"
#include "harness/ref.h"

#ifndef N
#define N 2
#endif
#ifndef ALIAS
#define ALIAS 0
#endif
#define NN (N ? N : 1)

#define SETUP \
	word A[NN], B[NN], C[NN], E[NN]; \
	word *pa = A, *pb = (ALIAS == 3 || ALIAS == 4) ? A : B; \
	word *pc = (ALIAS == 1 || ALIAS == 4) ? A : (ALIAS == 2 ? pb : C); \
	const word *xa = a0, *xb = (ALIAS == 3 || ALIAS == 4) ? a0 : b0; \
	word ret, eret; \
	r_copy(A, a0, N), r_copy(B, b0, N), r_copy(C, c0, N); \
	(void)pa, (void)pb, (void)pc, (void)xa, (void)xb, (void)ret, (void)eret, (void)E

void h_zz_add(void)
{
	V_IN_ARR(word, a0, NN);
	V_IN_ARR(word, b0, NN);
	V_IN_ARR(word, c0, NN);
	V_IN(word, w);
	{	/* zzAdd: c + B^n carry == a + b */
		SETUP;
		ret = zzAdd(pc, pa, pb, N);
		eret = r_add(E, xa, xb, N, 0);
		V_ASSERT(ret == eret, "zzAdd carry == (a + b) div B^n");
		V_ASSERT(r_eq(pc, E, N), "zzAdd c == (a + b) mod B^n");
		V_ASSERT(ALIAS != 0 || (r_eq(A, a0, N) && r_eq(B, b0, N)), "zzAdd leaves a, b unchanged");
	}
	{	/* zzSub: c - B^n borrow == a - b */
		SETUP;
		ret = zzSub(pc, pa, pb, N);
		eret = r_sub(E, xa, xb, N, 0);
		V_ASSERT(ret == eret, "zzSub borrow == (a < b)");
		V_ASSERT(r_eq(pc, E, N), "zzSub c == (a - b) mod B^n");
		V_ASSERT(ALIAS != 0 || (r_eq(A, a0, N) && r_eq(B, b0, N)), "zzSub leaves a, b unchanged");
	}
#if (ALIAS == 0 || ALIAS == 3)
	{	/* zzAdd2: b <- a + b   (ALIAS 3: b == a) */
		SETUP;
		ret = zzAdd2(pb, pa, N);
		eret = r_add(E, xa, xb, N, 0);
		V_ASSERT(ret == eret, "zzAdd2 carry");
		V_ASSERT(r_eq(pb, E, N), "zzAdd2 b == (a + b) mod B^n");
	}
	{	/* zzSub2: b <- b - a */
		SETUP;
		ret = zzSub2(pb, pa, N);
		eret = r_sub(E, xb, xa, N, 0);
		V_ASSERT(ret == eret, "zzSub2 borrow == (b < a)");
		V_ASSERT(r_eq(pb, E, N), "zzSub2 b == (b - a) mod B^n");
	}
	{	/* zzAddW: b <- a + w */
		SETUP;
		ret = zzAddW(pb, pa, N, w);
		eret = r_addw(E, xa, N, w);
		V_ASSERT(ret == (N ? eret : w), "zzAddW carry");
		V_ASSERT(r_eq(pb, E, N), "zzAddW b == (a + w) mod B^n");
	}
	{	/* zzSubW: b <- a - w */
		SETUP;
		ret = zzSubW(pb, pa, N, w);
		eret = r_subw(E, xa, N, w);
		V_ASSERT(ret == (N ? eret : w), "zzSubW borrow");
		V_ASSERT(r_eq(pb, E, N), "zzSubW b == (a - w) mod B^n");
	}
	{	/* zzNeg: b <- B^n - a */
		SETUP;
		word Z[NN];
		size_t i;
		for (i = 0; i < N; ++i) Z[i] = 0;
		zzNeg(pb, pa, N);
		r_sub(E, Z, xa, N, 0);
		V_ASSERT(r_eq(pb, E, N), "zzNeg b == (B^n - a) mod B^n");
	}
#endif
#if (ALIAS == 0)
	{	/* zzAddW2 / zzSubW2 */
		SETUP;
		ret = zzAddW2(pa, N, w);
		eret = r_addw(E, xa, N, w);
		V_ASSERT(ret == (N ? eret : w), "zzAddW2 carry");
		V_ASSERT(r_eq(pa, E, N), "zzAddW2 a == (a + w) mod B^n");
	}
	{
		SETUP;
		ret = zzSubW2(pa, N, w);
		eret = r_subw(E, xa, N, w);
		V_ASSERT(ret == (N ? eret : w), "zzSubW2 borrow");
		V_ASSERT(r_eq(pa, E, N), "zzSubW2 a == (a - w) mod B^n");
	}
	{	/* zzIsSumEq(c, a, b): a + b == c as integers (no carry out) */
		SETUP;
		bool_t r1 = zzIsSumEq(pc, pa, pb, N);
		bool_t r2 = FAST(zzIsSumEq)(pc, pa, pb, N);
		eret = r_add(E, xa, xb, N, 0);
		V_ASSERT(r1 == (eret == 0 && r_eq(E, c0, N)), "zzIsSumEq == (a + b == c)");
		V_ASSERT(r2 == r1, "zzIsSumEq: FAST edition == SAFE edition");
	}
	{	/* zzIsSumWEq(b, a, n, w): a + w == b */
		SETUP;
		bool_t r1 = zzIsSumWEq(pb, pa, N, w);
		bool_t r2 = FAST(zzIsSumWEq)(pb, pa, N, w);
		eret = r_addw(E, xa, N, w);
		V_ASSERT(r1 == ((N ? eret : w) == 0 && r_eq(E, b0, N)), "zzIsSumWEq == (a + w == b)");
		V_ASSERT(r2 == r1, "zzIsSumWEq: FAST edition == SAFE edition");
	}
#endif
	V_CANARY("zz_add");
}
