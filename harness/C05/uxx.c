/* C05 group uxx: word-level helpers of src/core/u16.c, u32.c, u64.c against bit-loop
   specs.  Loop-free code (or loops bounded by the word width): complete over all 2^W
   inputs.  W in {16, 32, 64} selects the type. */
#include "verif.h"
#include "bee2/core/u16.h"
#include "bee2/core/u32.h"
#include "bee2/core/u64.h"
#include "bee2/core/word.h"

#ifndef W
#define W 32
#endif
#define CAT_(a, b, c) a##b##c
#define CAT(a, b, c) CAT_(a, b, c)
#define T CAT(u, W, )
#define F(name) CAT(u, W, name)
#define BIT(x, i) (((x) >> (i)) & 1)
#ifdef SAFE_FAST
#define FS(name) F(name##_safe)
#define FF(name) F(name)
#else
#define FS(name) F(name)
#define FF(name) F(name##_fast)
#endif

void h_uxx(void)
{
	V_IN(T, w);
	V_IN(unsigned char, d);
	unsigned i;
	T e;
	{	/* octet reversal */
		for (e = 0, i = 0; i < W / 8; ++i)
			e |= (T)((w >> (8 * i)) & 0xFF) << (W - 8 - 8 * i);
		V_ASSERT(F(Rev)(w) == e, "uRev reverses the octets");
	}
	{	/* bit reversal */
		for (e = 0, i = 0; i < W; ++i)
			e |= (T)BIT(w, i) << (W - 1 - i);
		V_ASSERT(F(Bitrev)(w) == e, "uBitrev reverses the bits");
	}
	{	/* weight, parity */
		size_t wt = 0;
		for (i = 0; i < W; ++i) wt += BIT(w, i);
		V_ASSERT(F(Weight)(w) == wt, "uWeight == number of one bits");
		V_ASSERT(F(Parity)(w) == (wt & 1), "uParity == xor of the bits");
	}
	{	/* CTZ / CLZ, both editions; W for w == 0 */
		size_t tz = 0, lz = 0;
		while (tz < W && !BIT(w, tz)) ++tz;
		while (lz < W && !BIT(w, W - 1 - lz)) ++lz;
		V_ASSERT(FS(CTZ)(w) == tz, "uCTZ (SAFE)");
		V_ASSERT(FF(CTZ)(w) == tz, "uCTZ (FAST)");
		V_ASSERT(FS(CLZ)(w) == lz, "uCLZ (SAFE)");
		V_ASSERT(FF(CLZ)(w) == lz, "uCLZ (FAST)");
	}
	{	/* shuffle: bit i of the low half -> 2i, bit i of the high half -> 2i+1 */
		for (e = 0, i = 0; i < W / 2; ++i)
			e |= (T)BIT(w, i) << (2 * i), e |= (T)BIT(w, W / 2 + i) << (2 * i + 1);
		V_ASSERT(F(Shuffle)(w) == e, "uShuffle interleaves the halves");
		V_ASSERT(F(Deshuffle)(e) == w, "uDeshuffle inverts uShuffle");
		for (e = 0, i = 0; i < W / 2; ++i)
			e |= (T)BIT(w, 2 * i) << i, e |= (T)BIT(w, 2 * i + 1) << (W / 2 + i);
		V_ASSERT(F(Deshuffle)(w) == e, "uDeshuffle groups even / odd bits");
	}
	{	/* rotations */
		unsigned r = d % W;
		V_ASSUME(r != 0);
		for (e = 0, i = 0; i < W; ++i)
			e |= (T)BIT(w, i) << ((i + r) % W);
		V_ASSERT(F(RotHi)(w, r) == e, "uRotHi rotates towards the high bits");
		V_ASSERT(F(RotLo)(e, r) == w, "uRotLo inverts uRotHi");
	}
	V_CANARY("uxx");
}

/* additive-multiplicative inverse: w * uNegInv(w) == -1 mod 2^W for odd w */
void h_uxx_neginv(void)
{
	V_IN(T, w);
	V_TWEAK(w, w |= 1);
	V_ASSUME(w & 1);
	V_ASSERT((T)((u64)w * F(NegInv)(w) + 1) == 0, "uNegInv: w * r == -1 mod 2^W");
	V_CANARY("uxx_neginv");
}

/* load / store: little-endian octet strings <-> word arrays */
#ifndef CNT
#define CNT 5
#endif
#define NW ((CNT + W / 8 - 1) / (W / 8))
void h_uxx_fromto(void)
{
	V_IN_ARR(octet, src0, CNT ? CNT : 1);
	T dst[NW ? NW : 1], e;
	octet back[CNT ? CNT : 1];
	V_BUF(octet, S, CNT);
	size_t i, k;
	int ok = 1;
	for (i = 0; i < CNT; ++i) S[i] = src0[i];
	F(From)(dst, S, CNT);
	for (i = 0; i < NW; ++i)
	{
		for (e = 0, k = 0; k < W / 8; ++k)
			if (i * (W / 8) + k < CNT)
				e |= (T)src0[i * (W / 8) + k] << (8 * k);
		ok &= (dst[i] == e);
	}
	V_ASSERT(ok, "uFrom loads little-endian, zero-padding the last word");
	F(To)(back, CNT, dst);
	for (ok = 1, i = 0; i < CNT; ++i) ok &= (back[i] == src0[i]);
	V_ASSERT(ok, "uTo inverts uFrom");
	V_CANARY("uxx_fromto");
}
