/* C05 (level N, NOT proof): Knuth division on structured operands.  Uniform operands reach the add-back correction of
   algorithm D with probability ~2/B per quotient digit; words drawn from {0, 1, B-1, B/2, B/2 +- 1, ...} reach it
   constantly.  zzDiv and zzMod against the schoolbook reference: a == q b + r, r < b, zzMod == r. */
#include "verif.h"
#include "bee2/math/zz.h"
#include "bee2/math/ww.h"
#include "harness/ref.h"

#ifndef N
#define N 4
#endif
#ifndef M
#define M 3
#endif

#ifdef VERIF_NATIVE
#define WMAX ((word)~(word)0)
#define WHI ((word)1 << (B_PER_W - 1))
static word special(void)
{
	const word S[12] = { 0, 1, 2, WMAX, WMAX - 1, WHI, WHI - 1, WHI + 1, WHI >> 1, (WHI >> 1) - 1, (WHI >> 1) + 1, WMAX >> 1 };
	unsigned long long r = v_rand();
	if (r % 8 == 0) return (word)v_rand();
	if (r % 8 == 1) return (word)1 << ((r >> 8) % B_PER_W);
	if (r % 8 == 2) return ((word)1 << ((r >> 8) % B_PER_W)) - 1;
	return S[(r >> 8) % 12];
}
#endif

void h_divstress(void)
{
	V_IN_ARR(word, a, N); V_IN_ARR(word, b, M);
	V_TWEAK(a, { size_t i; if (v_rand() % 4) for (i = 0; i < N; ++i) a[i] = special(); });
	V_TWEAK(b, { size_t i; if (v_rand() % 8) for (i = 0; i < M; ++i) b[i] = special(); if (!b[M - 1]) b[M - 1] = special() | 1; });
	/* a close to a multiple of b: a <- b * t (+- small), another way into the correction steps */
	V_TWEAK(a, { if (v_rand() % 3 == 0 && N >= M) { word t[N], p[2 * N + 1]; size_t i; for (i = 0; i < N; ++i) t[i] = i < N - M ? special() : 0;
		for (i = 0; i < 2 * N + 1; ++i) p[i] = 0;
		r_mul(p, b, M, t, N - M ? N - M : 1); for (i = 0; i < N; ++i) a[i] = p[i]; if (v_rand() % 2) r_subw(a, a, N, 1); } });
	V_ASSUME(b[M - 1] != 0);
	V_NATIVE_ONLY({
		word q[N - M + 1], r[M], r2[M], r3[N], p[N + 1 + M], s[N + 1 + M]; size_t i;
		V_ALLOC(octet, stack, zzDiv_deep(N, M)); V_ALLOC(octet, stack2, zzMod_deep(N, M));
		word a1[N], b1[M];
		r_copy(a1, a, N); r_copy(b1, b, M);
		zzDiv(q, r, a1, N, b1, M, stack);
		zzMod(r2, a1, N, b1, M, stack2);
		r_mod(r3, a, N, b, M);
		V_ASSERT(r_cmp(r, b, M) < 0, "zzDiv: r < b");
		V_ASSERT(r_eq(r, r3, M), "zzDiv: r == a mod b (schoolbook reference)");
		V_ASSERT(r_eq(r2, r3, M), "zzMod == a mod b (schoolbook reference)");
		for (i = 0; i < N + 1 + M; ++i) p[i] = 0, s[i] = 0;
		r_mul(p, q, N - M + 1, b, M);
		for (i = 0; i < M; ++i) s[i] = r[i];
		r_add(p, p, s, N + 1, 0);
		V_ASSERT(r_eq(p, a, N) && p[N] == 0, "zzDiv: a == q b + r");
	})
	V_CANARY("divstress");
}
