/* C05 groups pp.*: binary-polynomial layer (src/math/pp/*.c) against shift-and-xor specs,
   scratch stacks of exactly f_deep() octets.  N, M words concrete; contents symbolic. */
#include "verif.h"
#include "bee2/math/pp.h"
#include "bee2/math/ww.h"
#include "bee2/core/word.h"
#include "harness/ref.h"

#ifndef N
#define N 2
#endif
#ifndef M
#define M 1
#endif
#define WBUF(name, n) V_ALLOC(word, name, (n) * sizeof(word))
#define FILL(dst, src, n) do { size_t i_; for (i_ = 0; i_ < (n); ++i_) (dst)[i_] = (src)[i_]; } while (0)

void h_pp_mul(void)
{
	V_IN_ARR(word, a0, N); V_IN_ARR(word, b0, M); V_IN(word, w);
	word E[N + M + 1], W1[1];
	WBUF(a, N); WBUF(b, M); WBUF(c, N + M); WBUF(d, N); WBUF(sq, 2 * N);
	FILL(a, a0, N); FILL(b, b0, M);
	V_ASSERT(ppDeg(a, N) == r_pdeg(a0, N), "ppDeg == degree (all-ones for the zero polynomial)");
	{ V_ALLOC(octet, st, ppMul_deep(N, M)); ppMul(c, a, N, b, M, st); r_pmul(E, a0, N, b0, M); V_ASSERT(r_eq(c, E, N + M), "ppMul c == a * b in GF(2)[x]"); }
	{ V_ALLOC(octet, st, ppSqr_deep(N)); ppSqr(sq, a, N, st); r_pmul(E, a0, N, a0, N); V_ASSERT(r_eq(sq, E, 2 * N), "ppSqr b == a * a"); }
	{ V_ALLOC(octet, st, ppMulW_deep(N)); word cy; W1[0] = w; r_pmul(E, a0, N, W1, 1); cy = ppMulW(d, a, N, w, st);
	  V_ASSERT(r_eq(d, E, N) && cy == E[N], "ppMulW b + X^n carry == a * w"); }
	{ V_ALLOC(octet, st, ppAddMulW_deep(N)); word cy; size_t i; FILL(d, a0, N); cy = ppAddMulW(d, a, N, w, st);
	  for (i = 0; i < N; ++i) E[i] ^= a0[i];
	  V_ASSERT(r_eq(d, E, N) && cy == E[N], "ppAddMulW b + X^n carry == b + a * w"); }
	V_CANARY("pp_mul");
}

void h_pp_mod(void)
{
	V_IN_ARR(word, a0, N); V_IN_ARR(word, b0, M);
	word R[N], P[N + M + 1], T[N + M + 1];
	WBUF(a, N); WBUF(b, M); WBUF(q, N - M + 1); WBUF(r, M); WBUF(r2, M);
	size_t i;
	V_TWEAK(b0, if (!b0[M - 1]) b0[M - 1] = (word)1 << (v_rand() % B_PER_W); if (v_rand() % 3 == 0) b0[M - 1] = 1);
	V_ASSUME(b0[M - 1] != 0);
	FILL(a, a0, N); FILL(b, b0, M);
	r_pmod(R, a0, N, b0, M);
	{ V_ALLOC(octet, st, ppDiv_deep(N, M)); ppDiv(q, r, a, N, b, M, st);
	  V_ASSERT(r_eq(r, R, M) && r_iszero(R + M, N - M), "ppDiv r == a mod b");
	  r_pmul(P, q, N - M + 1, b0, M);
	  for (i = 0; i < N; ++i) T[i] = P[i] ^ (i < M ? r[i] : 0);
	  V_ASSERT(r_eq(T, a0, N), "ppDiv a == q * b + r"); }
	{ V_ALLOC(octet, st, ppMod_deep(N, M)); ppMod(r2, a, N, b, M, st); V_ASSERT(r_eq(r2, R, M), "ppMod r == a mod b"); }
	V_CANARY("pp_mod");
}

void h_pp_modular(void)
{
	V_IN_ARR(word, a0, N); V_IN_ARR(word, b0, N); V_IN_ARR(word, m0, N); V_IN_ARR(word, x0, 2 * N);
	word P[2 * N], R[2 * N], MM[2 * N];
	WBUF(a, N); WBUF(b, N); WBUF(c, N); WBUF(mod, N); WBUF(x, 2 * N);
	size_t i, dm;
	V_TWEAK(m0, if (!m0[N - 1]) m0[N - 1] = 1; if (v_rand() % 3 == 0) m0[N - 1] = 1);
	V_ASSUME(m0[N - 1] != 0);
	dm = r_pdeg(m0, N);
	V_TWEAK(a0, for (i = dm; i < N * B_PER_W; ++i) a0[i / B_PER_W] &= ~((word)1 << i % B_PER_W));
	V_TWEAK(b0, for (i = dm; i < N * B_PER_W; ++i) b0[i / B_PER_W] &= ~((word)1 << i % B_PER_W));
	V_ASSUME(r_iszero(a0, N) || r_pdeg(a0, N) < dm);
	V_ASSUME(r_iszero(b0, N) || r_pdeg(b0, N) < dm);
	FILL(a, a0, N); FILL(b, b0, N); FILL(mod, m0, N);
	for (i = 0; i < 2 * N; ++i) MM[i] = i < N ? m0[i] : 0;
	{ V_ALLOC(octet, st, ppMulMod_deep(N)); ppMulMod(c, a, b, mod, N, st); r_pmul(P, a0, N, b0, N); r_pmod(R, P, 2 * N, m0, N);
	  V_ASSERT(r_eq(c, R, N), "ppMulMod c == a * b mod m"); }
	{ V_ALLOC(octet, st, ppSqrMod_deep(N)); ppSqrMod(c, a, mod, N, st); r_pmul(P, a0, N, a0, N); r_pmod(R, P, 2 * N, m0, N);
	  V_ASSERT(r_eq(c, R, N), "ppSqrMod b == a * a mod m"); }
	{ V_ALLOC(octet, st, ppRed_deep(N)); FILL(x, x0, 2 * N); ppRed(x, mod, N, st); r_pmod(R, x0, 2 * N, m0, N);
	  V_ASSERT(r_eq(x, R, N), "ppRed a == a mod m"); }
	V_CANARY("pp_modular");
}

/* fixed-shape reductions: belt polynomial x^128 + x^7 + x^2 + x + 1 */
void h_pp_redbelt(void)
{
	V_IN_ARR(word, x0, 2 * (128 / B_PER_W));
	word R[2 * (128 / B_PER_W)], MB[128 / B_PER_W + 1];
	WBUF(x, 2 * (128 / B_PER_W));
	size_t i;
	for (i = 0; i <= 128 / B_PER_W; ++i) MB[i] = 0;
	MB[0] = 0x87, MB[128 / B_PER_W] = 1;
	FILL(x, x0, 2 * (128 / B_PER_W));
	ppRedBelt(x);
	r_pmod(R, x0, 2 * (128 / B_PER_W), MB, 128 / B_PER_W + 1);
	V_ASSERT(r_eq(x, R, 128 / B_PER_W), "ppRedBelt a == a mod (x^128 + x^7 + x^2 + x + 1)");
	V_CANARY("pp_redbelt");
}

/* Euclid family: natively (data-dependent loops) */
void h_pp_gcd(void)
{
	V_IN_ARR(word, a0, N); V_IN_ARR(word, b0, M);
	word P1[2 * (N + M)], P2[2 * (N + M)], T[N + M];
	WBUF(a, N); WBUF(b, M); WBUF(d, (N < M ? N : M)); WBUF(da, M); WBUF(db, N);
	size_t i, nd = (N < M ? N : M);
	V_TWEAK(a0, if (r_iszero(a0, N)) a0[0] = 1); V_TWEAK(b0, if (r_iszero(b0, M)) b0[0] = 1);
	V_ASSUME(!r_iszero(a0, N) && !r_iszero(b0, M));
	FILL(a, a0, N); FILL(b, b0, M);
	{ V_ALLOC(octet, st, ppGCD_deep(N, M)); ppGCD(d, a, N, b, M, st); }
	{ word g[N < M ? N : M]; V_ALLOC(octet, st, ppExGCD_deep(N, M)); FILL(g, d, nd); ppExGCD(d, da, db, a, N, b, M, st);
	  V_ASSERT(r_eq(g, d, nd), "ppExGCD d == ppGCD(a, b)");
	  r_pmul(P1, a0, N, da, M); r_pmul(P2, b0, M, db, N);
	  for (i = 0; i < N + M; ++i) T[i] = P1[i] ^ P2[i] ^ (i < nd ? d[i] : 0);
	  V_ASSERT(r_iszero(T, N + M), "ppExGCD a * da + b * db == d");
	  { word R[N]; r_pmod(R, a0, N, d, nd); V_ASSERT(r_iszero(R, N), "gcd divides a"); }
	  { word R[M]; r_pmod(R, b0, M, d, nd); V_ASSERT(r_iszero(R, M), "gcd divides b"); } }
	V_CANARY("pp_gcd");
}
