/* C05 group zz_mod: additive modular functions of src/math/zz/zz_mod.c and the
   regularisation primitives of zz_etc.c, both editions, against (a op b) mod m and
   "result < m" (fully reduced).  N words concrete, contents symbolic, ALIAS as in
   zz_add.c (0 disjoint, 1 c==a, 2 c==b, 4 a==b==c). */
#include "verif.h"
#include "bee2/math/zz.h"
#include "bee2/math/ww.h"
#include "bee2/core/word.h"
#include "harness/ref.h"

extern void zzAddAndW(word b[], const word a[], size_t n, register word w);
extern word zzSubAndW(word b[], const word a[], size_t n, register word w);

#ifndef N
#define N 2
#endif
#ifndef ALIAS
#define ALIAS 0
#endif

#define SETUP \
	word A[N], B[N], C[N], E[N + 1], T[N + 1]; \
	word *pa = A, *pb = (ALIAS == 4) ? A : B; \
	word *pc = (ALIAS == 1 || ALIAS == 4) ? A : (ALIAS == 2 ? pb : C); \
	const word *xa = a0, *xb = (ALIAS == 4) ? a0 : b0; \
	r_copy(A, a0, N), r_copy(B, b0, N), r_copy(C, c0, N); \
	(void)pa, (void)pb, (void)pc, (void)xa, (void)xb, (void)E, (void)T

/* E <- (x + y) mod m for x, y < m */
static void e_addmod(word E[], const word x[], const word y[], const word m[])
{
	word T[N + 1], M[N + 1];
	r_copy(M, m, N), M[N] = 0;
	T[N] = r_add(T, x, y, N, 0);
	if (r_cmp(T, M, N + 1) >= 0)
		r_sub(T, T, M, N + 1, 0);
	r_copy(E, T, N);
}
/* E <- (x - y) mod m for x, y < m */
static void e_submod(word E[], const word x[], const word y[], const word m[])
{
	if (r_sub(E, x, y, N, 0))
		r_add(E, E, m, N, 0);
}

void h_zz_mod(void)
{
	V_IN_ARR(word, a0, N);
	V_IN_ARR(word, b0, N);
	V_IN_ARR(word, c0, N);
	V_IN_ARR(word, m0, N);
	V_IN(word, w);
	word W1[N];
	size_t i;
	V_ASSUME(r_cmp(a0, m0, N) < 0 && r_cmp(b0, m0, N) < 0);
	for (i = 0; i < N; ++i) W1[i] = i ? 0 : w;
#define BOTH(call_safe, call_fast, spec, name) \
	{ SETUP; spec; call_safe; \
	  V_ASSERT(r_eq(pc, E, N), name " (SAFE) == spec"); \
	  V_ASSERT(r_cmp(pc, m0, N) < 0, name " (SAFE) result is fully reduced"); } \
	{ SETUP; spec; call_fast; \
	  V_ASSERT(r_eq(pc, E, N), name " (FAST) == spec"); \
	  V_ASSERT(r_cmp(pc, m0, N) < 0, name " (FAST) result is fully reduced"); }
	BOTH(zzAddMod(pc, pa, pb, m0, N), FAST(zzAddMod)(pc, pa, pb, m0, N), e_addmod(E, xa, xb, m0), "zzAddMod")
	BOTH(zzSubMod(pc, pa, pb, m0, N), FAST(zzSubMod)(pc, pa, pb, m0, N), e_submod(E, xa, xb, m0), "zzSubMod")
#if (ALIAS == 0 || ALIAS == 1)
	if (r_cmp(W1, m0, N) < 0)
	{
		BOTH(zzAddWMod(pc, pa, w, m0, N), FAST(zzAddWMod)(pc, pa, w, m0, N), e_addmod(E, xa, W1, m0), "zzAddWMod")
		BOTH(zzSubWMod(pc, pa, w, m0, N), FAST(zzSubWMod)(pc, pa, w, m0, N), e_submod(E, xa, W1, m0), "zzSubWMod")
	}
	{
		word Z[N];
		for (i = 0; i < N; ++i) Z[i] = 0;
		BOTH(zzNegMod(pc, pa, m0, N), FAST(zzNegMod)(pc, pa, m0, N), e_submod(E, Z, xa, m0), "zzNegMod")
		BOTH(zzDoubleMod(pc, pa, m0, N), FAST(zzDoubleMod)(pc, pa, m0, N), e_addmod(E, xa, xa, m0), "zzDoubleMod")
	}
	if ((m0[0] & 1) && m0[N - 1] != 0)
	{	/* zzHalfMod: b + b == a (mod m), b < m */
		{ SETUP; zzHalfMod(pc, pa, m0, N);
		  V_ASSERT(r_cmp(pc, m0, N) < 0, "zzHalfMod (SAFE) result is fully reduced");
		  e_addmod(E, pc, pc, m0);
		  V_ASSERT(r_eq(E, a0, N), "zzHalfMod (SAFE) 2 b == a mod m"); }
		{ SETUP; FAST(zzHalfMod)(pc, pa, m0, N);
		  V_ASSERT(r_cmp(pc, m0, N) < 0, "zzHalfMod (FAST) result is fully reduced");
		  e_addmod(E, pc, pc, m0);
		  V_ASSERT(r_eq(E, a0, N), "zzHalfMod (FAST) 2 b == a mod m"); }
	}
#endif
#if (ALIAS == 0)
	{	/* zzAddAndW / zzSubAndW: b <- b +- (a & w) mod B^n */
		SETUP;
		word ret, eret;
		for (i = 0; i < N; ++i) T[i] = a0[i] & w;
		zzAddAndW(pb, pa, N, w);
		r_add(E, b0, T, N, 0);
		V_ASSERT(r_eq(pb, E, N), "zzAddAndW b == b + (a & w)");
		r_copy(B, b0, N);
		ret = zzSubAndW(pb, pa, N, w);
		eret = r_sub(E, b0, T, N, 0);
		V_ASSERT(r_eq(pb, E, N) && ret == eret, "zzSubAndW b == b - (a & w), returns borrow");
	}
	V_ASSERT(zzIsEven(a0, N) == !(a0[0] & 1) && zzIsOdd(a0, N) == (int)(a0[0] & 1), "zzIsEven / zzIsOdd");
#endif
	V_CANARY("zz_mod");
}
