/* C05/C14 group zz_red: the special reductions of src/math/zz/zz_red.c, regular (SAFE)
   edition against fast (FAST) edition on equal inputs, plus "result < mod" (fully
   reduced), under the preconditions of zz.h.  Nonlinear -> decided by the cvc5/z3
   portfolio; N words concrete (1 for Montgomery/Barrett, 2 for the Crandall forms). */
#include "verif.h"
#include "bee2/math/zz.h"
#include "bee2/math/ww.h"
#include "bee2/core/word.h"
#include "harness/ref.h"

#ifndef N
#define N 1
#endif
/* PART 1: SAFE == FAST (structure-aligned, decided by SMT in seconds);
   PART 2: "result < mod" (a free-standing multiplication fact: attempted only) */
#ifndef PART
#define PART 1
#endif
#define REL(c, msg) do { if (PART == 1) V_ASSERT(c, msg); } while (0)
#define RED(c, msg) do { if (PART == 2) V_ASSERT(c, msg); } while (0)

void h_red_mont(void)
{
	V_IN_ARR(word, a0, 2 * N);
	V_IN_ARR(word, m0, N);
	V_IN(word, mont_param);
	word A1[2 * N + 1], A2[2 * N + 1];
	V_TWEAK(m0, m0[0] |= 1; if (!m0[N - 1]) m0[N - 1] = 1);
	V_TWEAK(mont_param, mont_param = wordNegInv(m0[0]));
	V_TWEAK(a0, if (v_rand() % 2) { word k[N], p[2 * N]; size_t i; for (i = 0; i < N; ++i) k[i] = (v_rand() % 4) ? 0 : (word)v_rand(); k[0] |= (word)(v_rand() % 3); r_mul(p, m0, N, k, N); r_copy(a0, p, 2 * N); });
	V_ASSUME((m0[0] & 1) && m0[N - 1] != 0);
	V_ASSUME((word)(m0[0] * mont_param + 1) == 0);
	V_ASSUME(r_cmp(a0 + N, m0, N) < 0);          /* a < mod * B^n */
	r_copy(A1, a0, 2 * N), r_copy(A2, a0, 2 * N);
	A1[2 * N] = A2[2 * N] = 0;                   /* FAST edition uses a[n] as a scratch word after the shift */
	zzRedMont(A1, m0, N, mont_param, 0);
	FAST(zzRedMont)(A2, m0, N, mont_param, 0);
	RED(r_cmp(A1, m0, N) < 0, "zzRedMont (SAFE) result is fully reduced");
	RED(r_cmp(A2, m0, N) < 0, "zzRedMont (FAST) result is fully reduced");
	REL(r_eq(A1, A2, N), "zzRedMont SAFE edition == FAST edition");
	V_CANARY("red_mont");
}

#if (N >= 2)
void h_red_crand(void)
{
	V_IN_ARR(word, a0, 2 * N);
	V_IN(word, c);
	V_IN(word, mont_param);
	word m0[N], A1[2 * N + 1], A2[2 * N + 1], A3[2 * N + 1], A4[2 * N + 1], E[N];
	size_t i;
	V_TWEAK(c, c |= 1);
	V_TWEAK(mont_param, mont_param = wordNegInv((word)(0 - c)));
	V_ASSUME(c != 0);
	m0[0] = (word)(0 - c);                       /* mod = B^n - c */
	for (i = 1; i < N; ++i) m0[i] = WORD_MAX;
	V_TWEAK(a0, if (v_rand() % 2) { word k[N], p[2 * N]; for (i = 0; i < N; ++i) k[i] = (v_rand() % 4) ? 0 : (word)v_rand(); k[0] |= (word)(v_rand() % 3); r_mul(p, m0, N, k, N); r_copy(a0, p, 2 * N); });
	r_copy(A1, a0, 2 * N), r_copy(A2, a0, 2 * N), r_copy(A3, a0, 2 * N), r_copy(A4, a0, 2 * N);
	A1[2 * N] = A2[2 * N] = A3[2 * N] = A4[2 * N] = 0;
	/* Crandall reduction: a mod (B^n - c) */
	zzRedCrand(A1, m0, N, 0);
	FAST(zzRedCrand)(A2, m0, N, 0);
	RED(r_cmp(A1, m0, N) < 0, "zzRedCrand (SAFE) result is fully reduced");
	RED(r_cmp(A2, m0, N) < 0, "zzRedCrand (FAST) result is fully reduced");
	REL(r_eq(A1, A2, N), "zzRedCrand SAFE edition == FAST edition");
	V_NATIVE_ONLY(r_mod(E, a0, 2 * N, m0, N); V_ASSERT(r_eq(A1, E, N), "zzRedCrand == a mod (B^n - c) [native search only]");)
	/* Crandall-Montgomery: needs odd modulus, a < mod * B^n */
	if ((c & 1) && (word)(m0[0] * mont_param + 1) == 0 && r_cmp(a0 + N, m0, N) < 0)
	{
		zzRedCrandMont(A3, m0, N, mont_param, 0);
		FAST(zzRedCrandMont)(A4, m0, N, mont_param, 0);
		RED(r_cmp(A3, m0, N) < 0, "zzRedCrandMont (SAFE) result is fully reduced");
		RED(r_cmp(A4, m0, N) < 0, "zzRedCrandMont (FAST) result is fully reduced");
		REL(r_eq(A3, A4, N), "zzRedCrandMont SAFE edition == FAST edition");
	}
	V_CANARY("red_crand");
}
#endif
