/* C05 groups ww.*: functions of src/math/ww.c against the descriptions in ww.h.
   Operand length N words (concrete), contents / positions / shifts symbolic. */
#include "verif.h"
#include "bee2/math/ww.h"
#include "bee2/core/word.h"
#include "harness/ref.h"

#ifndef N
#define N 2
#endif
#ifndef M
#define M N
#endif
#define NN (N ? N : 1)
#define MM (M ? M : 1)

void h_ww_basic(void)
{
	V_IN_ARR(word, a0, NN);
	V_IN_ARR(word, b0, NN);
	V_IN_ARR(word, m0, MM);
	V_IN(word, w);
	size_t i;
	{	/* wwCopy, disjoint and in place */
		word A[NN], B[NN];
		r_copy(A, a0, N), r_copy(B, b0, N);
		wwCopy(B, A, N);
		V_ASSERT(r_eq(B, a0, N) && r_eq(A, a0, N), "wwCopy b == a, a unchanged");
		wwCopy(A, A, N);
		V_ASSERT(r_eq(A, a0, N), "wwCopy in place keeps a");
	}
	{	/* wwSwap */
		word A[NN], B[NN];
		r_copy(A, a0, N), r_copy(B, b0, N);
		wwSwap(A, B, N);
		V_ASSERT(r_eq(B, a0, N) && r_eq(A, b0, N), "wwSwap exchanges a and b");
	}
	{	/* wwEq, wwCmp: SAFE and FAST editions against the lexicographic spec */
		int e = r_cmp(a0, b0, N);
		V_ASSERT(wwEq(a0, b0, N) == (e == 0), "wwEq (SAFE) == (a == b)");
		V_ASSERT(FAST(wwEq)(a0, b0, N) == (e == 0), "wwEq (FAST) == (a == b)");
		V_ASSERT(wwCmp(a0, b0, N) == e, "wwCmp (SAFE) == sign(a - b)");
		V_ASSERT(FAST(wwCmp)(a0, b0, N) == e, "wwCmp (FAST) == sign(a - b)");
		V_ASSERT(wwEq(a0, a0, N) == 1 && wwCmp(a0, a0, N) == 0, "wwEq/wwCmp reflexive");
	}
	{	/* wwCmp2: different lengths */
		int e = r_cmp2(a0, N, m0, M);
		V_ASSERT(wwCmp2(a0, N, m0, M) == e, "wwCmp2 (SAFE) == sign(a - b)");
		V_ASSERT(FAST(wwCmp2)(a0, N, m0, M) == e, "wwCmp2 (FAST) == sign(a - b)");
		V_ASSERT(wwCmp2(m0, M, a0, N) == -e, "wwCmp2 (SAFE) antisymmetric");
		V_ASSERT(FAST(wwCmp2)(m0, M, a0, N) == -e, "wwCmp2 (FAST) antisymmetric");
	}
	{	/* wwCmpW */
		word W1[1];
		int e;
		W1[0] = w;
		e = r_cmp2(a0, N, W1, 1);
		V_ASSERT(wwCmpW(a0, N, w) == e, "wwCmpW (SAFE) == sign(a - w)");
		V_ASSERT(FAST(wwCmpW)(a0, N, w) == e, "wwCmpW (FAST) == sign(a - w)");
	}
	{	/* wwXor, wwXor2 (disjoint, c==a, c==b) */
		word A[NN], B[NN], C[NN];
		int ok = 1;
		r_copy(A, a0, N), r_copy(B, b0, N);
		wwXor(C, A, B, N);
		for (i = 0; i < N; ++i) ok &= (C[i] == (a0[i] ^ b0[i]));
		V_ASSERT(ok, "wwXor c == a ^ b");
		wwXor(A, A, B, N);
		V_ASSERT(r_eq(A, C, N), "wwXor in place (c == a)");
		r_copy(A, a0, N);
		wwXor(B, A, B, N);
		V_ASSERT(r_eq(B, C, N), "wwXor in place (c == b)");
		r_copy(B, b0, N);
		wwXor2(B, A, N);
		V_ASSERT(r_eq(B, C, N) && r_eq(A, a0, N), "wwXor2 b ^= a");
	}
	{	/* wwSetZero, wwSetW, wwRepW */
		word A[NN];
		int ok = 1;
		r_copy(A, a0, N);
		wwSetZero(A, N);
		V_ASSERT(r_iszero(A, N), "wwSetZero");
#if (N > 0)
		r_copy(A, a0, N);
		wwSetW(A, N, w);
		V_ASSERT(A[0] == w && r_iszero(A + 1, N - 1), "wwSetW a == w");
		wwRepW(A, N, w);
		for (i = 0; i < N; ++i) ok &= (A[i] == w);
		V_ASSERT(ok, "wwRepW a == w w ... w");
#endif
	}
	{	/* wwIsZero, wwIsW, wwIsRepW: both editions */
		int z = r_iszero(a0, N), isw, isrep = 1;
		isw = N ? (a0[0] == w && r_iszero(a0 + 1, N - 1)) : (w == 0);
		for (i = 0; i < N; ++i) isrep &= (a0[i] == w);
		if (N == 0) isrep = (w == 0);
		V_ASSERT(wwIsZero(a0, N) == z, "wwIsZero (SAFE)");
		V_ASSERT(FAST(wwIsZero)(a0, N) == z, "wwIsZero (FAST)");
		V_ASSERT(wwIsW(a0, N, w) == isw, "wwIsW (SAFE)");
		V_ASSERT(FAST(wwIsW)(a0, N, w) == isw, "wwIsW (FAST)");
		V_ASSERT(wwIsRepW(a0, N, w) == isrep, "wwIsRepW (SAFE)");
		V_ASSERT(FAST(wwIsRepW)(a0, N, w) == isrep, "wwIsRepW (FAST)");
	}
	{	/* sizes */
		size_t ws = r_wordsize(a0, N), bs = r_bitsize(a0, N);
		V_ASSERT(wwWordSize(a0, N) == ws, "wwWordSize");
		V_ASSERT(wwOctetSize(a0, N) == (bs + 7) / 8, "wwOctetSize");
		V_ASSERT(wwBitSize(a0, N) == bs, "wwBitSize");
		V_ASSERT(wwHiZeroBits(a0, N) == N * B_PER_W - bs, "wwHiZeroBits");
		{
			size_t lz = 0, j = 0;
			word t;
			while (j < N && a0[j] == 0) ++j, lz += B_PER_W;
			if (j < N)
				for (t = a0[j]; !(t & 1); t >>= 1) ++lz;
			V_ASSERT(wwLoZeroBits(a0, N) == lz, "wwLoZeroBits");
		}
	}
	V_CANARY("ww_basic");
}

#if (N > 0)
void h_ww_bits(void)
{
	V_IN_ARR(word, a0, NN);
	V_IN(size_t, pos);
	V_IN(size_t, width);
	V_IN(word, val);
	V_IN(unsigned char, bit);
	size_t i;
	V_TWEAK(pos, pos %= N * B_PER_W);
	V_TWEAK(width, width %= B_PER_W + 1; if (pos + width > N * B_PER_W) width = N * B_PER_W - pos);
	V_TWEAK(bit, bit &= 1);
	V_ASSUME(pos < N * B_PER_W);
	V_ASSUME(width <= B_PER_W && pos + width <= N * B_PER_W);
	V_ASSUME(bit <= 1);
	V_NATIVE_ONLY((void)0;)
	{
		V_ASSERT(wwTestBit(a0, pos) == r_testbit(a0, pos), "wwTestBit");
	}
	{	/* wwGetBits: bits pos .. pos+width-1 */
		word e = 0;
		for (i = 0; i < B_PER_W; ++i)
			if (i < width)
				e |= (word)r_testbit(a0, pos + i) << i;
		V_ASSERT(wwGetBits(a0, pos, width) == e, "wwGetBits");
	}
	{	/* wwSetBit / wwFlipBit: exactly one bit changes */
		word A[NN], E[NN];
		r_copy(A, a0, N), r_copy(E, a0, N);
		E[pos / B_PER_W] &= ~((word)1 << pos % B_PER_W);
		E[pos / B_PER_W] |= (word)bit << pos % B_PER_W;
		wwSetBit(A, pos, bit);
		V_ASSERT(r_eq(A, E, N), "wwSetBit sets bit pos, nothing else");
		r_copy(A, a0, N), r_copy(E, a0, N);
		E[pos / B_PER_W] ^= (word)1 << pos % B_PER_W;
		wwFlipBit(A, pos);
		V_ASSERT(r_eq(A, E, N), "wwFlipBit flips bit pos, nothing else");
	}
	{	/* wwSetBits */
		word A[NN];
		int ok = 1;
		size_t k;
		r_copy(A, a0, N);
		wwSetBits(A, pos, width, val);
		for (k = 0; k < N * B_PER_W; ++k)
		{
			int e = (k >= pos && k < pos + width) ? (int)((val >> (k - pos)) & 1) : r_testbit(a0, k);
			ok &= (r_testbit(A, k) == e);
		}
		V_ASSERT(ok, "wwSetBits sets bits pos..pos+width-1 to val, nothing else");
	}
	V_CANARY("ww_bits");
}

void h_ww_shift(void)
{
	V_IN_ARR(word, a0, NN);
	V_IN(size_t, shift);
	V_IN(word, carry);
	size_t j;
	V_TWEAK(shift, shift %= (N + 3) * B_PER_W + 1);
	V_ASSUME(shift <= (N + 3) * B_PER_W);
	{	/* wwShLo: a <- a div 2^shift */
		word A[NN];
		int ok = 1;
		r_copy(A, a0, N);
		wwShLo(A, N, shift);
		for (j = 0; j < N; ++j) ok &= (A[j] == r_shr_word(a0, N, j, shift));
		V_ASSERT(ok, "wwShLo a == a div 2^shift");
	}
	{	/* wwShHi: a <- a * 2^shift mod B^n */
		word A[NN];
		int ok = 1;
		r_copy(A, a0, N);
		wwShHi(A, N, shift);
		for (j = 0; j < N; ++j) ok &= (A[j] == r_shl_word(a0, N, j, shift));
		V_ASSERT(ok, "wwShHi a == a * 2^shift mod B^n");
	}
	{	/* wwShLoCarry: (ret, a) <- low words of ((carry B^n + a) B) div 2^shift */
		word A[NN], E[N + 2], ret;
		int ok = 1;
		r_copy(A, a0, N);
		E[0] = 0, E[N + 1] = carry;
		for (j = 0; j < N; ++j) E[j + 1] = a0[j];
		ret = wwShLoCarry(A, N, shift, carry);
		for (j = 0; j < N; ++j) ok &= (A[j] == r_shr_word(E, N + 2, j + 1, shift));
		V_ASSERT(ok, "wwShLoCarry a == (carry B^n + a) div 2^shift mod B^n");
		V_ASSERT(ret == r_shr_word(E, N + 2, 0, shift), "wwShLoCarry returns the last displaced word");
	}
	{	/* wwShHiCarry: (a, ret) <- words of (a B + carry) 2^shift */
		word A[NN], E[N + 2], ret;
		int ok = 1;
		r_copy(A, a0, N);
		E[0] = carry, E[N + 1] = 0;
		for (j = 0; j < N; ++j) E[j + 1] = a0[j];
		ret = wwShHiCarry(A, N, shift, carry);
		for (j = 0; j < N; ++j) ok &= (A[j] == r_shl_word(E, N + 2, j + 1, shift));
		V_ASSERT(ok, "wwShHiCarry a == (a B + carry) 2^shift div B mod B^n");
		V_ASSERT(ret == r_shl_word(E, N + 2, N + 1, shift), "wwShHiCarry returns the last displaced word");
	}
	{	/* wwTrimLo / wwTrimHi: word j keeps the bits at positions >= pos (resp. < pos) */
		word A[NN];
		int ok = 1;
		r_copy(A, a0, N);
		wwTrimLo(A, N, shift);
		for (j = 0; j < N; ++j)
		{
			word keep = shift >= (j + 1) * B_PER_W ? 0 : shift <= j * B_PER_W ? WORD_MAX :
				(word)(WORD_MAX << (shift - j * B_PER_W));
			ok &= (A[j] == (a0[j] & keep));
		}
		V_ASSERT(ok, "wwTrimLo clears bits 0..pos-1, nothing else");
		r_copy(A, a0, N);
		ok = 1;
		wwTrimHi(A, N, shift);
		for (j = 0; j < N; ++j)
		{
			word keep = shift >= (j + 1) * B_PER_W ? 0 : shift <= j * B_PER_W ? WORD_MAX :
				(word)(WORD_MAX << (shift - j * B_PER_W));
			ok &= (A[j] == (a0[j] & (word)~keep));
		}
		V_ASSERT(ok, "wwTrimHi clears bits pos.., nothing else");
	}
	V_CANARY("ww_shift");
}
#endif
