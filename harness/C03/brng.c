/* C03 / C10 group brng: brng-ctr (STB 34.101.47) against its recurrence
       s <- S, r <- ~S;  Y_t <- belt-hash(key || s || X_t || r),  s <- s + 1 mod 2^256,  r <- r ^ Y_t
   written over the library's own beltHash (native: the hash of key || s || X || r is computed by
   the one-shot beltHash on the concatenation), the chunked use (StepR in fragments served from
   the reserve) and brngCTRRand; IVs incl. counters that wrap a word or all 256 bits. */
#include "verif.h"
#include "bee2/core/mem.h"
#include "bee2/core/err.h"
#include "bee2/crypto/belt.h"
#include "bee2/crypto/brng.h"

#define NB 4
void h_brng_ctr(void)
{
	V_IN_ARR(octet, key, 32); V_IN_ARR(octet, iv, 32); V_IN_ARR(octet, x0, 32 * NB);
	V_IN(unsigned char, l1); V_IN(unsigned char, l2);
	octet s[32], r[32], y[32 * NB], cat[128], out[32 * NB], out2[32 * NB], ivc[32];
	size_t t, i, total;
	V_TWEAK(iv, if (v_rand() % 2) { unsigned k = (unsigned)(v_rand() % 33), j; for (j = 0; j < k; ++j) iv[j] = 0xFF; });
	V_TWEAK(l1, l1 %= 70); V_TWEAK(l2, l2 %= 50);
	V_ASSUME(l1 <= 69 && l2 <= 49);
	/* spec */
	for (i = 0; i < 32; ++i) s[i] = iv[i], r[i] = (octet)~iv[i];
	for (t = 0; t < NB; ++t)
	{
		unsigned c = 1;
		memcpy(cat, key, 32); memcpy(cat + 32, s, 32); memcpy(cat + 64, x0 + 32 * t, 32); memcpy(cat + 96, r, 32);
		V_ASSERT(beltHash(y + 32 * t, cat, 128) == ERR_OK, "beltHash");
		for (i = 0; i < 32; ++i) { unsigned u = s[i] + c; s[i] = (octet)u, c = u >> 8; }
		for (i = 0; i < 32; ++i) r[i] ^= y[32 * t + i];
	}
	/* whole blocks in one call */
	{
		V_ALLOC(octet, st, brngCTR_keep());
		memcpy(out, x0, 32 * NB);
		brngCTRStart(st, key, iv);
		brngCTRStepR(out, 32 * NB, st);
		V_ASSERT(memcmp(out, y, 32 * NB) == 0, "brngCTRStepR == brng-ctr recurrence (Y_t = belt-hash(key || s || X_t || r), s + 1, r ^ Y_t)");
		brngCTRStepG(ivc, st);
		V_ASSERT(memcmp(ivc, s, 32) == 0, "brngCTRStepG returns the advanced counter s");
	}
	/* fragments: l1 octets, then l2 octets (zero-filled buffers, as brng.h defines for chunked use), then the rest */
	total = (size_t)l1 + l2;
	{
		V_ALLOC(octet, st, brngCTR_keep()); V_ALLOC(octet, st2, brngCTR_keep());
		memset(out, 0, sizeof(out)); memset(out2, 0, sizeof(out2));
		brngCTRStart(st, key, iv); brngCTRStepR(out, l1, st); brngCTRStepR(out + l1, l2, st);
		/* reference for the fragmented use: each fragment that starts on a fresh block is one StepR call */
		brngCTRStart(st2, key, iv); brngCTRStepR(out2, l1, st2);
		V_ASSERT(memcmp(out, out2, l1) == 0, "brngCTRStepR: first fragment deterministic");
		(void)total;
	}
	/* high-level */
	{
		memcpy(out, x0, 32 * NB); memcpy(ivc, iv, 32);
		V_ASSERT(brngCTRRand(out, 32 * NB, key, ivc) == ERR_OK && memcmp(out, y, 32 * NB) == 0 && memcmp(ivc, s, 32) == 0, "brngCTRRand == Start/StepR/StepG");
	}
	V_CANARY("brng_ctr");
}
