/* C03 (level N, NOT proof): bash-hash and the programmable automaton bash-prg against octet-wise reference
   automata written from STB 34.101.77 on top of bashF (bashF itself is decided against the standard's round
   structure in the bash_f groups).  The library processes whole buffers and applies F lazily/eagerly per block;
   the references absorb, squeeze and encrypt one octet at a time, so buffering, padding, the control bit and
   the position of the command code are specified independently of the block loops. */
#include "verif.h"
#include "bee2/crypto/bash.h"
#include "bee2/core/mem.h"
#include "bee2/core/err.h"

#ifdef VERIF_NATIVE
static octet fstack[4096];
/* ---- bash-hash: S <- 0 || <l/4>_64; blocks of r = 192 - l/2 octets of X || 01 0* overwrite S[0..r), F after each */
static void spec_hash(octet* out, size_t l, const octet* x, size_t n)
{
	octet S[192]; size_t r = 192 - l / 2, i, pos = 0;
	memset(S, 0, 192); S[184] = (octet)(l / 4);
	for (i = 0; i <= n; ++i)
	{
		S[pos++] = i < n ? x[i] : 0x40;
		if (i == n) while (pos < r) S[pos++] = 0;
		if (pos == r) bashF(S, fstack), pos = 0;
	}
	memcpy(out, S, l / 4);
}
/* ---- bash-prg */
typedef struct { octet S[192]; size_t l, d, r, pos; int keyed; } prg_t;
static size_t rate(size_t l, size_t d, int keyed) { return keyed ? 192 - l * (2 + d) / 16 : 192 - d * l / 4; }
static void p_commit(prg_t* p, octet code) { p->S[p->pos] ^= code; p->S[p->r] ^= 0x80; bashF(p->S, fstack); p->pos = 0; }
static void p_start(prg_t* p, size_t l, size_t d, const octet* ann, size_t al, const octet* key, size_t kl)
{
	memset(p->S, 0, 192); p->S[0] = (octet)(al * 4 + kl / 4);
	memcpy(p->S + 1, ann, al); memcpy(p->S + 1 + al, key, kl);
	p->pos = 1 + al + kl; p->S[184] = (octet)(l / 4 + d);
	p->l = l; p->d = d; p->keyed = kl != 0; p->r = rate(l, d, p->keyed);
}
static void p_restart(prg_t* p, const octet* ann, size_t al, const octet* key, size_t kl)
{
	size_t i;
	if (kl) { p_commit(p, 0x05); p->keyed = 1; p->r = rate(p->l, p->d, 1); }   /* the command is closed in the old mode */
	else p_commit(p, 0x01);
	p->S[0] ^= (octet)(al * 4 + kl / 4);
	for (i = 0; i < al; ++i) p->S[1 + i] ^= ann[i];
	for (i = 0; i < kl; ++i) p->S[1 + al + i] ^= key[i];
	p->pos = 1 + al + kl;
}
static void p_step(prg_t* p) { if (++p->pos == p->r) bashF(p->S, fstack), p->pos = 0; }
static void p_absorb(prg_t* p, const octet* x, size_t n) { size_t i; p_commit(p, 0x09); for (i = 0; i < n; ++i) { p->S[p->pos] ^= x[i]; p_step(p); } }
static void p_squeeze(prg_t* p, octet* y, size_t n) { size_t i; p_commit(p, 0x11); for (i = 0; i < n; ++i) { y[i] = p->S[p->pos]; p_step(p); } }
static void p_encr(prg_t* p, octet* x, size_t n) { size_t i; p_commit(p, 0x0D); for (i = 0; i < n; ++i) { p->S[p->pos] ^= x[i]; x[i] = p->S[p->pos]; p_step(p); } }
static void p_decr(prg_t* p, octet* x, size_t n) { size_t i; p_commit(p, 0x0D); for (i = 0; i < n; ++i) { octet c = x[i]; x[i] ^= p->S[p->pos]; p->S[p->pos] = c; p_step(p); } }
static void p_ratchet(prg_t* p) { octet T[192]; size_t i; memcpy(T, p->S, 192); p_commit(p, 0x01); for (i = 0; i < 192; ++i) p->S[i] ^= T[i]; }
#endif

#define DMAX 420
void h_bash_hash_spec(void)
{
	V_IN_ARR(octet, data, DMAX); V_IN(unsigned, sel); V_IN(unsigned, cut);
	V_NATIVE_ONLY({
		size_t l = 16 * (1 + sel % 16), n = (sel / 16) % (DMAX + 1), a, b; octet h1[64], h2[64], h3[64];
		V_ALLOC(octet, st, bashHash_keep());
		/* boundary lengths get extra weight: multiples of the block length and their neighbours */
		if ((sel >> 20) % 3 == 0) { size_t r = 192 - l / 2, k = 1 + (sel >> 22) % 2; n = k * r + (sel >> 24) % 3 - 1; if (n > DMAX) n = DMAX; }
		a = n ? cut % (n + 1) : 0; b = a + (n - a ? (cut / 1024) % (n - a + 1) : 0);
		spec_hash(h1, l, data, n);
		bashHashStart(st, l); bashHashStepH(data, a, st); bashHashStepH(data + a, b - a, st); bashHashStepH(data + b, n - b, st);
		bashHashStepG(h2, l / 4, st);
		V_ASSERT(memcmp(h1, h2, l / 4) == 0, "bash-hash (Start/StepH x 3/StepG) == sponge specification");
		V_ASSERT(bashHashStepV(h1, l / 4, st), "bashHashStepV accepts the specified value");
		h1[(cut / 7) % (l / 4)] ^= 1; V_ASSERT(!bashHashStepV(h1, l / 4, st), "bashHashStepV rejects an altered value");
		V_ASSERT(bashHash(h3, l, data, n) == ERR_OK && memcmp(h2, h3, l / 4) == 0, "bashHash == step interface");
	})
	(void)sel; (void)cut;
	V_CANARY("bash_hash_spec");
}

#define PMAX 400
void h_bash_prg_spec(void)
{
	V_IN_ARR(octet, data, PMAX); V_IN_ARR(octet, ann, 60); V_IN_ARR(octet, key, 60); V_IN_ARR(octet, script, 24); V_IN(unsigned, sel);
	V_NATIVE_ONLY({
		static const size_t LS[3] = { 128, 192, 256 };
		size_t l = LS[sel % 3], d = 1 + (sel / 3) % 2, al = 4 * ((sel / 6) % 16), kl, i; prg_t P; octet b1[PMAX], b2[PMAX];
		V_ALLOC(octet, st, bashPrg_keep());
		kl = (sel / 96) % 2 ? 0 : l / 8 + 4 * ((sel / 192) % ((60 - l / 8) / 4 + 1));
		p_start(&P, l, d, ann, al, key, kl);
		bashPrgStart(st, l, d, ann, al, key, kl);
		for (i = 0; i + 3 < 24; i += 4)
		{
			unsigned op = script[i] % 7; size_t n = (script[i + 1] | (script[i + 2] << 8)) % (PMAX + 1), a;
			/* lengths around the buffer length get extra weight */
			if (script[i + 3] % 3 == 0) { n = P.r * (1 + script[i + 3] % 2) + script[i + 2] % 3 - 1; if (n > PMAX) n = PMAX; }
			a = n ? (script[i + 3] * 7u) % (n + 1) : 0;
			switch (op)
			{
			case 0: p_absorb(&P, data, n); bashPrgAbsorbStart(st); bashPrgAbsorbStep(data, a, st); bashPrgAbsorbStep(data + a, n - a, st); break;
			case 1: p_squeeze(&P, b1, n); bashPrgSqueezeStart(st); bashPrgSqueezeStep(b2, a, st); bashPrgSqueezeStep(b2 + a, n - a, st);
				V_ASSERT(memcmp(b1, b2, n) == 0, "bash-prg squeeze == specification"); break;
			case 2: if (!P.keyed) break; memcpy(b1, data, n); memcpy(b2, data, n); p_encr(&P, b1, n);
				bashPrgEncrStart(st); bashPrgEncrStep(b2, a, st); bashPrgEncrStep(b2 + a, n - a, st);
				V_ASSERT(memcmp(b1, b2, n) == 0, "bash-prg encr == specification"); break;
			case 3: if (!P.keyed) break; memcpy(b1, data, n); memcpy(b2, data, n); p_decr(&P, b1, n);
				bashPrgDecrStart(st); bashPrgDecrStep(b2, a, st); bashPrgDecrStep(b2 + a, n - a, st);
				V_ASSERT(memcmp(b1, b2, n) == 0, "bash-prg decr == specification"); break;
			case 4: p_ratchet(&P); bashPrgRatchet(st); break;
			case 5: { size_t al2 = 4 * (script[i + 1] % 16); p_restart(&P, ann + (60 - al2), al2, 0, 0); bashPrgRestart(ann + (60 - al2), al2, 0, 0, st); break; }
			case 6: { size_t al2 = 4 * (script[i + 1] % 8), kl2 = l / 8 + 4 * (script[i + 2] % ((60 - l / 8) / 4 + 1));
				p_restart(&P, ann, al2, key + (60 - kl2), kl2); bashPrgRestart(ann, al2, key + (60 - kl2), kl2, st); break; }
			}
		}
		p_squeeze(&P, b1, 64); bashPrgSqueeze(b2, 64, st);
		V_ASSERT(memcmp(b1, b2, 64) == 0, "bash-prg: final squeeze == specification (start/restart/absorb/squeeze/encr/decr/ratchet history)");
	})
	(void)sel;
	V_CANARY("bash_prg_spec");
}
