/* C03 group bash_f: bashF0 / bashF of src/crypto/bash/bash_f64.c (included textually)
   against bash-f of STB 34.101.77 written out as the standard states it: 24 rounds of
   eight bash-s column transforms with rotation parameters (8, 53, 14, 1) * 7^j mod 64,
   the word permutation, and the LFSR round constants.  All 2^1536 states. */
#include "verif.h"
#include "src/crypto/bash/bash_f64.c"

#define ROTHI(w, d) ((u64)((w) << (d) | (w) >> (64 - (d))))

static void spec_bash_s(u64* w0, u64* w1, u64* w2, unsigned m1, unsigned n1, unsigned m2, unsigned n2)
{
	u64 t0, t1, t2;
	t0 = ROTHI(*w0, m1);
	*w0 = *w0 ^ *w1 ^ *w2;
	t1 = *w1 ^ ROTHI(*w0, n1);
	*w1 = t0 ^ t1;
	*w2 = *w2 ^ ROTHI(*w2, m2) ^ ROTHI(t1, n2);
	t0 = ~*w2;
	t1 = *w0 | *w2;
	t2 = *w0 & *w1;
	t0 = t0 | *w1;
	*w1 = *w1 ^ t1;
	*w2 = *w2 ^ t2;
	*w0 = *w0 ^ t0;
}

#ifndef ROUNDS
#define ROUNDS 24
#endif
static void spec_bash_f(u64 s[24], unsigned rounds)
{
	static const unsigned char perm[24] = { 15, 10, 9, 12, 11, 14, 13, 8, 17, 16, 19, 18, 21, 20, 23, 22, 6, 3, 0, 5, 2, 7, 4, 1 };
	u64 c = 0x3BF5080AC8BA94B1ull, t[24];
	unsigned i, j;
	for (i = 1; i <= rounds; ++i)
	{
		unsigned m1 = 8, n1 = 53, m2 = 14, n2 = 1;
		for (j = 0; j < 8; ++j)
		{
			spec_bash_s(s + j, s + 8 + j, s + 16 + j, m1, n1, m2, n2);
			m1 = 7 * m1 % 64, n1 = 7 * n1 % 64, m2 = 7 * m2 % 64, n2 = 7 * n2 % 64;
		}
		for (j = 0; j < 24; ++j) t[j] = s[perm[j]];
		for (j = 0; j < 24; ++j) s[j] = t[j];
		s[23] ^= c;
		c = (c & 1) ? (c >> 1) ^ 0xDC2BE1997FE0D8AEull : c >> 1;
	}
}

/* the whole permutation */
void h_bash_f(void)
{
	V_IN_ARR(u64, s0, 24);
	u64 a[24], b[24];
	unsigned i;
	int ok = 1;
	for (i = 0; i < 24; ++i) a[i] = b[i] = s0[i];
	bashF0(a);
	spec_bash_f(b, 24);
	for (i = 0; i < 24; ++i) ok &= (a[i] == b[i]);
	V_ASSERT(ok, "bashF0 == bash-f of STB 34.101.77 (24 rounds)");
	V_CANARY("bash_f");
}

/* octet interface: little-endian load/store around bashF0 */
void h_bash_f_octets(void)
{
	V_IN_ARR(octet, blk0, 192);
	V_BUF(octet, blk, 192);
	u64 b[24];
	unsigned i, k;
	int ok = 1;
	for (i = 0; i < 192; ++i) blk[i] = blk0[i];
	for (i = 0; i < 24; ++i)
		for (b[i] = 0, k = 0; k < 8; ++k) b[i] |= (u64)blk0[8 * i + k] << (8 * k);
	bashF(blk, 0);
	bashF0(b);
	for (i = 0; i < 24; ++i)
		for (k = 0; k < 8; ++k) ok &= (blk[8 * i + k] == (octet)(b[i] >> (8 * k)));
	V_ASSERT(ok, "bashF (octets) == bashF0 on little-endian words");
	V_CANARY("bash_f_octets");
}

/* six rounds built from the file's own round macro (one full cycle of the in-register
   permutation P0..P5) against six spec rounds, and the 24 round constants against the LFSR */
void h_bash_f6(void)
{
	V_IN_ARR(u64, s0, 24);
	u64 s[24], b[24], c, t0, t1, t2;
	static const u64 cs[24] = { c1, c2, c3, c4, c5, c6, c7, c8, c9, c10, c11, c12, c13, c14, c15, c16, c17, c18,
		c19, c20, c21, c22, c23, c24 };
	unsigned i;
	int ok = 1;
	for (i = 0; i < 24; ++i) s[i] = b[i] = s0[i];
	bashR(s, P0, P1,  1, t0, t1, t2);
	bashR(s, P1, P2,  2, t0, t1, t2);
	bashR(s, P2, P3,  3, t0, t1, t2);
	bashR(s, P3, P4,  4, t0, t1, t2);
	bashR(s, P4, P5,  5, t0, t1, t2);
	bashR(s, P5, P0,  6, t0, t1, t2);
	spec_bash_f(b, 6);
	for (i = 0; i < 24; ++i) ok &= (s[i] == b[i]);
	V_ASSERT(ok, "six rounds of the bashR macro over P0..P5 == six rounds of bash-f");
	for (c = 0x3BF5080AC8BA94B1ull, ok = 1, i = 0; i < 24; ++i)
	{
		ok &= (cs[i] == c);
		c = (c & 1) ? (c >> 1) ^ 0xDC2BE1997FE0D8AEull : c >> 1;
	}
	V_ASSERT(ok, "round constants c1..c24 == LFSR sequence of the standard");
	V_CANARY("bash_f6");
}
