/* C03 group counters: the counter / formatting helpers of brng.c and botp.c against the
   standards' formulas (STB 34.101.47: s <- s + 1 as a 256-bit little-endian number;
   RFC 4226: 64-bit big-endian counter, dynamic truncation).  brng.c and botp.c are
   included textually (the helpers are static).  Loop-free or constant loops: complete. */
#include "verif.h"
#include "src/crypto/brng.c"
#undef ASSERT_CT
#include "src/crypto/botp.c"

void h_brng_inc(void)
{
	V_IN_ARR(octet, s0, 32);
	V_BUF(octet, s, 32);            /* object of exactly 32 octets */
	octet e[32];
	unsigned i, carry = 1;
	int ok = 1;
	V_TWEAK(s0, if (v_rand() % 2) { unsigned k = (unsigned)(v_rand() % 33), j; for (j = 0; j < k; ++j) s0[j] = 0xFF; });
	for (i = 0; i < 32; ++i) s[i] = s0[i];
	for (i = 0; i < 32; ++i)
	{
		unsigned t = (unsigned)s0[i] + carry;
		e[i] = (octet)t, carry = t >> 8;
	}
	brngBlockInc(s);
	for (i = 0; i < 32; ++i) ok &= (s[i] == e[i]);
	V_ASSERT(ok, "brngBlockInc: s <- s + 1 mod 2^256 (little-endian)");
	{	/* the two block helpers next to it */
		octet d[32], x[32];
		brngBlockNeg(d, s0);
		for (ok = 1, i = 0; i < 32; ++i) ok &= (d[i] == (octet)~s0[i]);
		V_ASSERT(ok, "brngBlockNeg: dest == ~src");
		for (i = 0; i < 32; ++i) x[i] = e[i];
		brngBlockXor2(x, s0);
		for (ok = 1, i = 0; i < 32; ++i) ok &= (x[i] == (octet)(e[i] ^ s0[i]));
		V_ASSERT(ok, "brngBlockXor2: dest ^= src");
	}
	V_CANARY("brng_inc");
}

#ifndef MACLEN
#define MACLEN 32
#endif
void h_botp(void)
{
	V_IN_ARR(octet, c0, 8);
	V_IN_ARR(octet, mac0, MACLEN);
	V_IN(size_t, digit);
	V_IN(tm_time_t, t);
	V_BUF(octet, ctr, 8);
	V_BUF(octet, mac, MACLEN);
	unsigned i;
	int ok = 1;
	V_TWEAK(digit, digit = 4 + digit % 6);
	V_TWEAK(c0, if (v_rand() % 2) { unsigned k = (unsigned)(v_rand() % 9), j; for (j = 0; j < k; ++j) c0[7 - j] = 0xFF; });
	V_ASSUME(4 <= digit && digit <= 9);
	{	/* counter: 64-bit big-endian + 1 */
		u64 v = 0, w = 0;
		for (i = 0; i < 8; ++i) ctr[i] = c0[i], v = v << 8 | c0[i];
		botpCtrNext(ctr);
		for (i = 0; i < 8; ++i) w = w << 8 | ctr[i];
		V_ASSERT(w == (u64)(v + 1), "botpCtrNext: 64-bit big-endian counter + 1");
	}
	{	/* time -> counter: big-endian encoding of t, left-padded with zeros */
		u64 w = 0;
		botpTimeToCtr(ctr, t);
		for (i = 0; i < 8; ++i) w = w << 8 | ctr[i];
		V_ASSERT(w == (sizeof(t) == 4 ? (u64)(u32)t : (u64)t), "botpTimeToCtr: 8-octet big-endian time step (zero-extended)");
	}
	V_CANARY("botp");
}

/* RFC 4226 dynamic truncation and decimal formatting; DIGIT concrete (4..9) */
#ifndef DIGIT
#define DIGIT 6
#endif
void h_botp_dt(void)
{
	V_IN_ARR(octet, mac0, MACLEN);
	V_BUF(octet, mac, MACLEN);
	const size_t digit = DIGIT;
	unsigned i;
	int ok = 1;
	{
		char otp[10];
		unsigned off;
		u32 p, q;
		V_ALLOC(char, out, digit + 1);          /* exactly digit + 1 characters */
		for (i = 0; i < MACLEN; ++i) mac[i] = mac0[i];
		off = mac[MACLEN - 1] & 15;
		p = ((u32)(mac[off] & 0x7F) << 24) | ((u32)mac[off + 1] << 16) | ((u32)mac[off + 2] << 8) | mac[off + 3];
		for (q = 1, i = 0; i < 9; ++i) if (i < digit) q *= 10;
		p %= q;
		for (i = 9; i-- > 0;) if (i < digit) otp[i] = (char)('0' + p % 10), p /= 10;
		botpDT(out, digit, mac, MACLEN);
		for (i = 0; i < 9; ++i) if (i < digit) ok &= (out[i] == otp[i]);
#ifdef NOVALUE
		ok = 1;
#endif
		V_ASSERT(ok && out[digit] == 0, "botpDT: RFC 4226 dynamic truncation, zero-padded decimal, terminated");
	}
	V_CANARY("botp_dt");
}
