/* C01 groups block.*: the belt block function of src/crypto/belt/belt_block.c (included
   textually) against STB 34.101.31 section 6.1: G_r(u) = RotHi^r(H(u1) || H(u2) || H(u3) || H(u4)),
   eight rounds with steps 2.1-2.12 and key schedule k[7i-6..7i], output b || d || a || c; the
   decryption algorithm; D o E == id; the three interfaces; key expansion; the H table. */
#include "verif.h"
#include "src/crypto/belt/belt_block.c"

#define ROT(w, r) ((u32)((w) << (r) | (w) >> (32 - (r))))
#define GSPEC(u, r) ROT((u32)H[(u) & 255] | (u32)H[(u) >> 8 & 255] << 8 | (u32)H[(u) >> 16 & 255] << 16 | (u32)H[(u) >> 24] << 24, r)

/* G-lemma: the table-driven macros equal the standard's G_r, all 2^32 arguments */
void h_block_g(void)
{
	V_IN(u32, u);
	V_ASSERT((u32)(G5(u)) == GSPEC(u, 5), "G5 == RotHi^5(H(u1) || H(u2) || H(u3) || H(u4))");
	V_ASSERT((u32)(G13(u)) == GSPEC(u, 13), "G13 == RotHi^13(...)");
	V_ASSERT((u32)(G21(u)) == GSPEC(u, 21), "G21 == RotHi^21(...)");
	V_CANARY("block_g");
}

/* the H table against its generator */
void h_block_h(void)
{
	octet T[256 + 10];
	unsigned x, i;
	int ok = 1;
	T[10] = 0, T[11] = 0x8E;
	for (x = 12; x < 10 + 256; ++x)
	{
		unsigned t = T[(x - 1) % 256];
		for (i = 0; i < 116; ++i)
		{
			unsigned p = t & 0x63;
			p ^= p >> 4, p ^= p >> 2, p ^= p >> 1;
			t = t >> 1 | (p & 1) << 7;
		}
		T[x % 256] = (octet)t;
	}
	for (x = 0; x < 256; ++x) ok &= (T[x] == H[x]);
	V_ASSERT(ok, "H table == its LFSR generator");
	V_CANARY("block_h");
}

/* the standard's encryption / decryption algorithms over the file's own G macros */
static void spec_E(u32 y[4], const u32 x[4], const u32 k[8])
{
	u32 a = x[0], b = x[1], c = x[2], d = x[3], e, t;
	unsigned i;
#define KK(j) k[((j) - 1) % 8]
	for (i = 1; i <= 8; ++i)
	{
		b ^= G5(a + KK(7 * i - 6));
		c ^= G21(d + KK(7 * i - 5));
		a -= G13(b + KK(7 * i - 4));
		e = (G21(b + c + KK(7 * i - 3))) ^ i;
		b += e;
		c -= e;
		d += G13(c + KK(7 * i - 2));
		b ^= G21(a + KK(7 * i - 1));
		c ^= G5(d + KK(7 * i));
		t = a, a = b, b = t;
		t = c, c = d, d = t;
		t = b, b = c, c = t;
	}
	y[0] = b, y[1] = d, y[2] = a, y[3] = c;
}
static void spec_D(u32 y[4], const u32 x[4], const u32 k[8])
{
	u32 a = x[0], b = x[1], c = x[2], d = x[3], e, t;
	unsigned i;
	for (i = 8; i >= 1; --i)
	{
		b ^= G5(a + KK(7 * i));
		c ^= G21(d + KK(7 * i - 1));
		a -= G13(b + KK(7 * i - 2));
		e = (G21(b + c + KK(7 * i - 3))) ^ i;
		b += e;
		c -= e;
		d += G13(c + KK(7 * i - 4));
		b ^= G21(a + KK(7 * i - 5));
		c ^= G5(d + KK(7 * i - 6));
		t = a, a = b, b = t;
		t = c, c = d, d = t;
		t = a, a = d, d = t;
	}
	y[0] = c, y[1] = a, y[2] = d, y[3] = b;
}

void h_block_spec(void)
{
	V_IN_ARR(u32, x, 4);
	V_IN_ARR(u32, k, 8);
	u32 y[4], z[4];
	y[0] = x[0], y[1] = x[1], y[2] = x[2], y[3] = x[3];
	beltBlockEncr2(y, k);
	spec_E(z, x, k);
	V_ASSERT(y[0] == z[0] && y[1] == z[1] && y[2] == z[2] && y[3] == z[3], "beltBlockEncr2 == STB 34.101.31 6.1.3 (8 rounds, b || d || a || c)");
	y[0] = x[0], y[1] = x[1], y[2] = x[2], y[3] = x[3];
	beltBlockDecr2(y, k);
	spec_D(z, x, k);
	V_ASSERT(y[0] == z[0] && y[1] == z[1] && y[2] == z[2] && y[3] == z[3], "beltBlockDecr2 == STB 34.101.31 6.1.4 (c || a || d || b)");
	V_CANARY("block_spec");
}

void h_block_inverse(void)
{
	V_IN_ARR(u32, x, 4);
	V_IN_ARR(u32, k, 8);
	u32 y[4];
	y[0] = x[0], y[1] = x[1], y[2] = x[2], y[3] = x[3];
	beltBlockEncr2(y, k);
	beltBlockDecr2(y, k);
	V_ASSERT(y[0] == x[0] && y[1] == x[1] && y[2] == x[2] && y[3] == x[3], "beltBlockDecr2(beltBlockEncr2(x, k), k) == x");
	beltBlockDecr2(y, k);
	beltBlockEncr2(y, k);
	V_ASSERT(y[0] == x[0] && y[1] == x[1] && y[2] == x[2] && y[3] == x[3], "beltBlockEncr2(beltBlockDecr2(x, k), k) == x");
	V_CANARY("block_inverse");
}

/* the octet and the four-word interfaces agree with the u32[4] one (little-endian) */
void h_block_iface(void)
{
	V_IN_ARR(octet, blk0, 16);
	V_IN_ARR(u32, k, 8);
	V_BUF(octet, blk, 16);
	u32 w[4], a, b, c, d;
	unsigned i;
	int ok = 1;
	for (i = 0; i < 16; ++i) blk[i] = blk0[i];
	for (i = 0; i < 4; ++i) w[i] = (u32)blk0[4 * i] | (u32)blk0[4 * i + 1] << 8 | (u32)blk0[4 * i + 2] << 16 | (u32)blk0[4 * i + 3] << 24;
	a = w[0], b = w[1], c = w[2], d = w[3];
	beltBlockEncr(blk, k);
	beltBlockEncr2(w, k);
	beltBlockEncr3(&a, &b, &c, &d, k);
	for (i = 0; i < 16; ++i) ok &= (blk[i] == (octet)(w[i / 4] >> (8 * (i % 4))));
	V_ASSERT(ok, "beltBlockEncr (octets) == beltBlockEncr2 on little-endian words");
	V_ASSERT(a == w[0] && b == w[1] && c == w[2] && d == w[3], "beltBlockEncr3 == beltBlockEncr2");
	a = w[0], b = w[1], c = w[2], d = w[3];
	beltBlockDecr(blk, k);
	beltBlockDecr2(w, k);
	beltBlockDecr3(&a, &b, &c, &d, k);
	for (ok = 1, i = 0; i < 16; ++i) ok &= (blk[i] == (octet)(w[i / 4] >> (8 * (i % 4))));
	V_ASSERT(ok, "beltBlockDecr (octets) == beltBlockDecr2 on little-endian words");
	V_ASSERT(a == w[0] && b == w[1] && c == w[2] && d == w[3], "beltBlockDecr3 == beltBlockDecr2");
	V_CANARY("block_iface");
}

/* key expansion for the three key lengths */
#ifndef KLEN
#define KLEN 24
#endif
void h_keyexpand(void)
{
	V_IN_ARR(octet, key, KLEN);
	u32 K[8], E[8];
	octet k8[32];
	unsigned i;
	int ok = 1;
	for (i = 0; i < KLEN / 4; ++i) E[i] = (u32)key[4 * i] | (u32)key[4 * i + 1] << 8 | (u32)key[4 * i + 2] << 16 | (u32)key[4 * i + 3] << 24;
	if (KLEN == 16) E[4] = E[0], E[5] = E[1], E[6] = E[2], E[7] = E[3];
	if (KLEN == 24) E[6] = E[0] ^ E[1] ^ E[2], E[7] = E[3] ^ E[4] ^ E[5];
	beltKeyExpand2(K, key, KLEN);
	for (i = 0; i < 8; ++i) ok &= (K[i] == E[i]);
	V_ASSERT(ok, "beltKeyExpand2: theta for 128 / 192 / 256-bit keys");
	beltKeyExpand(k8, key, KLEN);
	for (ok = 1, i = 0; i < 32; ++i) ok &= (k8[i] == (octet)(E[i / 4] >> (8 * (i % 4))));
	V_ASSERT(ok, "beltKeyExpand (octets): theta for 128 / 192 / 256-bit keys");
	V_CANARY("keyexpand");
}
