/* C01 / C07 / C09 groups fmt.*: belt-FMT.
   h_fmt_table : native EXHAUSTIVE enumeration (level X) of the block-count routine
                 beltFMTCalcB over its complete domain mod 2..65536 x count 1..300 against
                 exact integer arithmetic: b = min { b : mod^count <= 2^(64 b) }.
   h_fmt_rt    : StepD o StepE == id, digits stay below mod, state object of exactly
                 beltFMT_keep(mod, count) octets (native ASan).
   h_fmt_err   : beltFMTEncr / beltFMTDecr answer a modulus outside 2..65536 with ERR_BAD_INPUT. */
#include "verif.h"
#include "src/crypto/belt/belt_fmt.c"

#ifdef VERIF_NATIVE
#define LIMBS 80
static unsigned bitlen_limbs(const u64* p, int n)
{
	int i;
	for (i = n - 1; i >= 0; --i)
		if (p[i])
		{
			unsigned b = 0; u64 t = p[i];
			while (t) ++b, t >>= 1;
			return (unsigned)i * 64 + b;
		}
	return 0;
}
static int is_pow2_limbs(const u64* p, int n)
{
	int i, ones = 0;
	for (i = 0; i < n; ++i) { u64 t = p[i]; while (t) ones += (int)(t & 1), t >>= 1; }
	return ones == 1;
}
#endif

void h_fmt_table(void)
{
#ifdef VERIF_NATIVE
	static u64 p[LIMBS];
	u32 mod; size_t count; int i;
	unsigned long bad = 0, total = 0;
	for (mod = 2; mod <= 65536; ++mod)
	{
		for (i = 0; i < LIMBS; ++i) p[i] = 0;
		p[0] = 1;
		for (count = 1; count <= 300; ++count)
		{
			unsigned __int128 c = 0; unsigned need; size_t e, g;
			for (i = 0; i < LIMBS; ++i) { c += (unsigned __int128)p[i] * mod; p[i] = (u64)c; c >>= 64; }
			need = is_pow2_limbs(p, LIMBS) ? bitlen_limbs(p, LIMBS) - 1 : bitlen_limbs(p, LIMBS);
			e = (need + 63) / 64;
			g = beltFMTCalcB(mod, count);
			++total;
			if (g != e)
			{
				if (bad < 5) printf("beltFMTCalcB(%u, %u) = %u, exact %u\n", (unsigned)mod, (unsigned)count, (unsigned)g, (unsigned)e);
				++bad;
			}
		}
	}
	printf("fmt table: %lu pairs enumerated, %lu mismatches\n", total, bad);
	V_ASSERT(bad == 0, "beltFMTCalcB == min { b : mod^count <= 2^(64 b) } on the complete domain (2..65536 x 1..300)");
#endif
	V_CANARY("fmt_table");
}

void h_fmt_rt(void)
{
	V_IN(u32, mod); V_IN(unsigned short, cnt); V_IN_ARR(u16, x0, 600); V_IN_ARR(octet, key, 32); V_IN_ARR(octet, iv, 16);
	size_t count, i;
	V_TWEAK(mod, mod = (v_rand() % 4 == 0) ? 65536 : (v_rand() % 4 == 0) ? 2 + v_rand() % 16 : 2 + mod % 65535);
	V_TWEAK(cnt, cnt = (unsigned short)((v_rand() % 3 == 0) ? 2 + v_rand() % 40 : 2 + cnt % 599));
	V_ASSUME(2 <= mod && mod <= 65536 && 2 <= cnt && cnt <= 600);
	count = cnt;
	{
		V_ALLOC(octet, state, beltFMT_keep(mod, count));
		V_ALLOC(u16, buf, 2 * count);
		int ok = 1;
		for (i = 0; i < count; ++i) buf[i] = x0[i] = (u16)(x0[i] % mod);
		beltFMTStart(state, mod, count, key, 32);
		beltFMTStepE(buf, iv, state);
		for (i = 0; i < count; ++i) ok &= (buf[i] < mod);
		V_ASSERT(ok, "beltFMTStepE: every output symbol is below mod");
		beltFMTStepD(buf, iv, state);
		for (ok = 1, i = 0; i < count; ++i) ok &= (buf[i] == x0[i]);
		V_ASSERT(ok, "beltFMTStepD inverts beltFMTStepE");
	}
	V_CANARY("fmt_rt");
}

void h_fmt_err(void)
{
	V_IN(u32, mod); V_IN_ARR(u16, x0, 8); V_IN_ARR(octet, key, 32);
	u16 y[8];
	V_TWEAK(mod, if (v_rand() % 2) mod = (v_rand() % 2) ? (u32)(v_rand() % 2) : 65537 + (u32)(v_rand() % 3));
	if (mod < 2 || mod > 65536)
	{
		V_ASSERT(beltFMTEncr(y, mod, x0, 8, key, 32, 0) == ERR_BAD_INPUT, "beltFMTEncr: mod outside 2..65536 => ERR_BAD_INPUT");
		V_ASSERT(beltFMTDecr(y, mod, x0, 8, key, 32, 0) == ERR_BAD_INPUT, "beltFMTDecr: mod outside 2..65536 => ERR_BAD_INPUT");
	}
	V_CANARY("fmt_err");
}
