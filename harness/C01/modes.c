/* C01 groups modes.*: the ECB / CBC / CFB / CTR Start/Step functions against the mode
   equations of STB 34.101.31 written over the same block function E, and Decr o Encr == id.
   Message length CNT octets (concrete), key length KLEN in {16, 24, 32}; key, IV and
   contents symbolic; state object of exactly beltXXX_keep() octets.  Under CBMC the block
   function is the uninterpreted pair of stubs/belt_uf.c; natively it is belt_block.c. */
#include "verif.h"
#include "bee2/core/mem.h"
#include "bee2/crypto/belt.h"

#ifndef CNT
#define CNT 40
#endif
#ifndef KLEN
#define KLEN 32
#endif
#define NB ((CNT + 15) / 16)
#define CC (CNT ? CNT : 1)

static int o_eq(const octet* a, const octet* b, size_t n)
{
	size_t i;
	for (i = 0; i < n; ++i) if (a[i] != b[i]) return 0;
	return 1;
}
static void o_copy(octet* d, const octet* s, size_t n) { size_t i; for (i = 0; i < n; ++i) d[i] = s[i]; }
static void o_xor(octet* d, const octet* a, const octet* b, size_t n) { size_t i; for (i = 0; i < n; ++i) d[i] = a[i] ^ b[i]; }
/* E on an octet block under the expanded key (spec side: same E as the code under test) */
static void E(octet y[16], const octet x[16], const u32 key[8]) { o_copy(y, x, 16); beltBlockEncr(y, key); }

#define SETUP \
	V_IN_ARR(octet, key, KLEN); V_IN_ARR(octet, iv, 16); V_IN_ARR(octet, x0, CC); \
	u32 K[8]; octet y[CC], z[CC], e[CC + 16]; \
	V_BUF(octet, buf, CNT); \
	beltKeyExpand2(K, key, KLEN); \
	(void)iv, (void)y, (void)z, (void)e

#if (CNT >= 16)
void h_ecb(void)
{
	SETUP;
	size_t i;
	V_ALLOC(octet, state, beltECB_keep());
	/* spec: full blocks Y_i = E(X_i); ragged tail: (Y_n || r) = E(X_{n-1}), Y_{n-1} = E(X_n || r) */
	for (i = 0; i + 16 <= CNT; i += 16) E(e + i, x0 + i, K);
	if (CNT % 16)
	{
		octet t[16];
		size_t r = CNT % 16, last = CNT - r - 16;
		o_copy(e + CNT - r, e + last, r);            /* Y_n = first r octets of E(X_{n-1}) */
		o_copy(t, x0 + CNT - r, r), o_copy(t + r, e + last + r, 16 - r);
		E(e + last, t, K);
	}
	o_copy(buf, x0, CNT);
	beltECBStart(state, key, KLEN);
	beltECBStepE(buf, CNT, state);
	V_ASSERT(o_eq(buf, e, CNT), "beltECBStepE == ECB with ciphertext stealing over E");
	beltECBStart(state, key, KLEN);
	beltECBStepD(buf, CNT, state);
	V_ASSERT(o_eq(buf, x0, CNT), "beltECBStepD inverts beltECBStepE");
	V_CANARY("ecb");
}

void h_cbc(void)
{
	SETUP;
	size_t i;
	octet t[16], prev[16];
	V_ALLOC(octet, state, beltCBC_keep());
	/* spec: Y_i = E(X_i ^ Y_{i-1}), Y_0 = S; ragged: (Y_n || r) = E(X_{n-1} ^ Y_{n-2}), Y_{n-1} = E((X_n ^ Y_n) || r) */
	o_copy(prev, iv, 16);
	for (i = 0; i + 16 <= CNT; i += 16)
	{
		o_xor(t, x0 + i, prev, 16);
		E(e + i, t, K);
		if (i + 32 <= CNT || CNT % 16 == 0) o_copy(prev, e + i, 16);
	}
	if (CNT % 16)
	{
		size_t r = CNT % 16, last = CNT - r - 16;
		o_copy(e + CNT - r, e + last, r);
		o_xor(t, x0 + CNT - r, e + CNT - r, r), o_copy(t + r, e + last + r, 16 - r);
		E(e + last, t, K);
	}
	o_copy(buf, x0, CNT);
	beltCBCStart(state, key, KLEN, iv);
	beltCBCStepE(buf, CNT, state);
	V_ASSERT(o_eq(buf, e, CNT), "beltCBCStepE == CBC with ciphertext stealing over E");
	beltCBCStart(state, key, KLEN, iv);
	beltCBCStepD(buf, CNT, state);
	V_ASSERT(o_eq(buf, x0, CNT), "beltCBCStepD inverts beltCBCStepE");
	V_CANARY("cbc");
}
#endif

void h_cfb(void)
{
	SETUP;
	size_t i;
	octet g[16], prev[16];
	V_ALLOC(octet, state, beltCFB_keep());
	/* spec: Y_i = X_i ^ L(E(Y_{i-1})), Y_0 = S */
	o_copy(prev, iv, 16);
	for (i = 0; i < CNT; i += 16)
	{
		size_t n = CNT - i < 16 ? CNT - i : 16;
		E(g, prev, K);
		o_xor(e + i, x0 + i, g, n);
		if (n == 16) o_copy(prev, e + i, 16);
	}
	o_copy(buf, x0, CNT);
	beltCFBStart(state, key, KLEN, iv);
	beltCFBStepE(buf, CNT, state);
	V_ASSERT(o_eq(buf, e, CNT), "beltCFBStepE == CFB over E");
	beltCFBStart(state, key, KLEN, iv);
	beltCFBStepD(buf, CNT, state);
	V_ASSERT(o_eq(buf, x0, CNT), "beltCFBStepD inverts beltCFBStepE");
	V_CANARY("cfb");
}

void h_ctr(void)
{
	SETUP;
	size_t i, k;
	octet g[16], s[16];
	V_ALLOC(octet, state, beltCTR_keep());
	/* spec: s = E(S); for each block: s = s + 1 mod 2^128 (little-endian), Y_i = X_i ^ L(E(s)) */
	E(s, iv, K);
	for (i = 0; i < CNT; i += 16)
	{
		size_t n = CNT - i < 16 ? CNT - i : 16;
		unsigned c = 1;
		for (k = 0; k < 16; ++k) { unsigned t = s[k] + c; s[k] = (octet)t, c = t >> 8; }
		E(g, s, K);
		o_xor(e + i, x0 + i, g, n);
	}
	o_copy(buf, x0, CNT);
	beltCTRStart(state, key, KLEN, iv);
	beltCTRStepE(buf, CNT, state);
	V_ASSERT(o_eq(buf, e, CNT), "beltCTRStepE == CTR over E (128-bit little-endian counter)");
	beltCTRStart(state, key, KLEN, iv);
	beltCTRStepD(buf, CNT, state);
	V_ASSERT(o_eq(buf, x0, CNT), "beltCTRStepD inverts beltCTRStepE");
	V_CANARY("ctr");
}
