/* C01 groups modes.*: the ECB / CBC / CFB / CTR Start/Step functions against the mode
   equations of STB 34.101.31 written over the same block function E, and Decr o Encr == id.
   Message length CNT octets (concrete), key length KLEN in {16, 24, 32}; key, IV and
   contents symbolic; state object of exactly beltXXX_keep() octets.  Under CBMC the block
   function is the uninterpreted pair of stubs/belt_uf.c; natively it is belt_block.c. */
#include "verif.h"
#include "bee2/core/mem.h"
#include "bee2/crypto/belt.h"

#ifndef CNT
#define CNT 40
#endif
#ifndef KLEN
#define KLEN 32
#endif
#define NB ((CNT + 15) / 16)
#define CC (CNT ? CNT : 1)

static int o_eq(const octet* a, const octet* b, size_t n)
{
	size_t i;
	for (i = 0; i < n; ++i) if (a[i] != b[i]) return 0;
	return 1;
}
static void o_copy(octet* d, const octet* s, size_t n) { size_t i; for (i = 0; i < n; ++i) d[i] = s[i]; }
static void o_xor(octet* d, const octet* a, const octet* b, size_t n) { size_t i; for (i = 0; i < n; ++i) d[i] = a[i] ^ b[i]; }
/* E on an octet block under the expanded key (spec side: same E as the code under test) */
static void E(octet y[16], const octet x[16], const u32 key[8]) { o_copy(y, x, 16); beltBlockEncr(y, key); }

#define SETUP \
	V_IN_ARR(octet, key, KLEN); V_IN_ARR(octet, iv, 16); V_IN_ARR(octet, x0, CC); \
	u32 K[8]; octet y[CC], z[CC], e[CC + 16]; \
	V_BUF(octet, buf, CNT); \
	beltKeyExpand2(K, key, KLEN); \
	(void)iv, (void)y, (void)z, (void)e

#if (CNT >= 16)
void h_ecb(void)
{
	SETUP;
	size_t i;
	V_ALLOC(octet, state, beltECB_keep());
	/* spec: full blocks Y_i = E(X_i); ragged tail: (Y_n || r) = E(X_{n-1}), Y_{n-1} = E(X_n || r) */
	for (i = 0; i + 16 <= CNT; i += 16) E(e + i, x0 + i, K);
	if (CNT % 16)
	{
		octet t[16];
		size_t r = CNT % 16, last = CNT - r - 16;
		o_copy(e + CNT - r, e + last, r);            /* Y_n = first r octets of E(X_{n-1}) */
		o_copy(t, x0 + CNT - r, r), o_copy(t + r, e + last + r, 16 - r);
		E(e + last, t, K);
	}
	o_copy(buf, x0, CNT);
	beltECBStart(state, key, KLEN);
	beltECBStepE(buf, CNT, state);
	V_ASSERT(o_eq(buf, e, CNT), "beltECBStepE == ECB with ciphertext stealing over E");
	beltECBStart(state, key, KLEN);
	beltECBStepD(buf, CNT, state);
	V_ASSERT(o_eq(buf, x0, CNT), "beltECBStepD inverts beltECBStepE");
	V_CANARY("ecb");
}

void h_cbc(void)
{
	SETUP;
	size_t i;
	octet t[16], prev[16];
	V_ALLOC(octet, state, beltCBC_keep());
	/* spec: Y_i = E(X_i ^ Y_{i-1}), Y_0 = S; ragged: (Y_n || r) = E(X_{n-1} ^ Y_{n-2}), Y_{n-1} = E((X_n ^ Y_n) || r) */
	o_copy(prev, iv, 16);
	for (i = 0; i + 16 <= CNT; i += 16)
	{
		o_xor(t, x0 + i, prev, 16);
		E(e + i, t, K);
		if (i + 32 <= CNT || CNT % 16 == 0) o_copy(prev, e + i, 16);
	}
	if (CNT % 16)
	{
		size_t r = CNT % 16, last = CNT - r - 16;
		o_copy(e + CNT - r, e + last, r);
		o_xor(t, x0 + CNT - r, e + CNT - r, r), o_copy(t + r, e + last + r, 16 - r);
		E(e + last, t, K);
	}
	o_copy(buf, x0, CNT);
	beltCBCStart(state, key, KLEN, iv);
	beltCBCStepE(buf, CNT, state);
	V_ASSERT(o_eq(buf, e, CNT), "beltCBCStepE == CBC with ciphertext stealing over E");
	beltCBCStart(state, key, KLEN, iv);
	beltCBCStepD(buf, CNT, state);
	V_ASSERT(o_eq(buf, x0, CNT), "beltCBCStepD inverts beltCBCStepE");
	V_CANARY("cbc");
}
#endif

void h_cfb(void)
{
	SETUP;
	size_t i;
	octet g[16], prev[16];
	V_ALLOC(octet, state, beltCFB_keep());
	/* spec: Y_i = X_i ^ L(E(Y_{i-1})), Y_0 = S */
	o_copy(prev, iv, 16);
	for (i = 0; i < CNT; i += 16)
	{
		size_t n = CNT - i < 16 ? CNT - i : 16;
		E(g, prev, K);
		o_xor(e + i, x0 + i, g, n);
		if (n == 16) o_copy(prev, e + i, 16);
	}
	o_copy(buf, x0, CNT);
	beltCFBStart(state, key, KLEN, iv);
	beltCFBStepE(buf, CNT, state);
	V_ASSERT(o_eq(buf, e, CNT), "beltCFBStepE == CFB over E");
	beltCFBStart(state, key, KLEN, iv);
	beltCFBStepD(buf, CNT, state);
	V_ASSERT(o_eq(buf, x0, CNT), "beltCFBStepD inverts beltCFBStepE");
	V_CANARY("cfb");
}

void h_ctr(void)
{
	SETUP;
	size_t i, k;
	octet g[16], s[16];
	V_ALLOC(octet, state, beltCTR_keep());
	/* spec: s = E(S); for each block: s = s + 1 mod 2^128 (little-endian), Y_i = X_i ^ L(E(s)) */
	E(s, iv, K);
	for (i = 0; i < CNT; i += 16)
	{
		size_t n = CNT - i < 16 ? CNT - i : 16;
		unsigned c = 1;
		for (k = 0; k < 16; ++k) { unsigned t = s[k] + c; s[k] = (octet)t, c = t >> 8; }
		E(g, s, K);
		o_xor(e + i, x0 + i, g, n);
	}
	o_copy(buf, x0, CNT);
	beltCTRStart(state, key, KLEN, iv);
	beltCTRStepE(buf, CNT, state);
	V_ASSERT(o_eq(buf, e, CNT), "beltCTRStepE == CTR over E (128-bit little-endian counter)");
	beltCTRStart(state, key, KLEN, iv);
	beltCTRStepD(buf, CNT, state);
	V_ASSERT(o_eq(buf, x0, CNT), "beltCTRStepD inverts beltCTRStepE");
	V_CANARY("ctr");
}

/* ---- MAC and DWP against the standard's equations over the same E (and the same GF(2^128)
   multiplication) -------------------------------------------------------------------- */
#include "crypto/belt/belt_lcl.h"
#include "bee2/math/ww.h"
#include "bee2/core/err.h"

void h_mac(void)
{
	SETUP;
	size_t i, k;
	octet s[16], r[16], t[16], g[8], zero[16];
	V_ALLOC(octet, state, beltMAC_keep());
	/* spec: s = 0; r = E(0); s = E(s ^ X_i) for all blocks but the last; last block:
	   full: s ^= X_n ^ phi1(r), ragged (incl. empty): s ^= (X_n || 1 || 0..) ^ phi2(r);  T = L_64(E(s))
	   phi1(u1 u2 u3 u4) = u2 u3 u4 (u1 ^ u2),  phi2(u1 u2 u3 u4) = (u1 ^ u4) u1 u2 u3   (32-bit words) */
	for (i = 0; i < 16; ++i) zero[i] = 0, s[i] = 0;
	E(r, zero, K);
	for (i = 0; i + 16 < CNT; i += 16) { o_xor(t, s, x0 + i, 16); E(s, t, K); }
	if (CNT && CNT % 16 == 0)
	{
		o_xor(s, s, x0 + CNT - 16, 16);
		for (k = 0; k < 12; ++k) s[k] ^= r[k + 4];
		for (k = 0; k < 4; ++k) s[12 + k] ^= r[k] ^ r[4 + k];
	}
	else
	{
		size_t rem = CNT % 16;
		octet pad[16];
		for (k = 0; k < 16; ++k) pad[k] = k < rem ? x0[CNT - rem + k] : (k == rem ? 0x80 : 0);
		o_xor(s, s, pad, 16);
		for (k = 0; k < 4; ++k) s[k] ^= r[k] ^ r[12 + k];
		for (k = 0; k < 12; ++k) s[4 + k] ^= r[k];
	}
	E(t, s, K);
	o_copy(buf, x0, CNT);
	beltMACStart(state, key, KLEN);
	beltMACStepA(buf, CNT, state);
	beltMACStepG(g, state);
	V_ASSERT(o_eq(g, t, 8), "beltMACStepG == belt-mac of STB 34.101.31 over E");
	V_ASSERT(beltMACStepV(g, state), "beltMACStepV accepts the MAC");
	g[3] ^= 1;
	V_ASSERT(!beltMACStepV(g, state), "beltMACStepV rejects an altered MAC");
	V_CANARY("mac");
}

#ifndef LI
#define LI 21
#endif
static void gmul(octet t[16], const octet r[16])
{
	word a[W_OF_B(128)], b[W_OF_B(128)];
	octet stack[512];
	V_ASSERT(beltPolyMul_deep() <= sizeof(stack), "scratch for beltPolyMul");
	wwFrom(a, t, 16), wwFrom(b, r, 16);
	beltPolyMul(a, a, b, stack);
	wwTo(t, 16, a);
}
void h_dwp(void)
{
	SETUP;
	V_IN_ARR(octet, i0, LI ? LI : 1);
	V_IN_ARR(octet, badtag, 8);
	size_t i, k;
	octet s[16], r[16], t[16], g[16], tag[8], blk[16], lenb[16], back[CC];
	V_ALLOC(octet, state, beltDWP_keep());
	/* spec: s = E(S); r = E(s); t = first 16 octets of H; t = (t ^ I_i) * r; CTR from s -> Y; t = (t ^ Y_i) * r;
	   t = (t ^ (<|I|>_64 || <|X|>_64)) * r; T = L_64(E(t)) */
	E(s, iv, K); E(r, s, K);
	o_copy(t, beltH(), 16);
	for (i = 0; i < LI; i += 16) { for (k = 0; k < 16; ++k) blk[k] = i + k < LI ? i0[i + k] : 0; o_xor(t, t, blk, 16); gmul(t, r); }
	for (i = 0; i < CNT; i += 16)
	{
		size_t n = CNT - i < 16 ? CNT - i : 16;
		unsigned c = 1;
		for (k = 0; k < 16; ++k) { unsigned u = s[k] + c; s[k] = (octet)u, c = u >> 8; }
		E(g, s, K);
		o_xor(e + i, x0 + i, g, n);
		for (k = 0; k < 16; ++k) blk[k] = k < n ? e[i + k] : 0;
		o_xor(t, t, blk, 16); gmul(t, r);
	}
	for (k = 0; k < 8; ++k) lenb[k] = (octet)(((u64)LI * 8) >> (8 * k)), lenb[8 + k] = (octet)(((u64)CNT * 8) >> (8 * k));
	o_xor(t, t, lenb, 16); gmul(t, r);
	E(g, t, K); o_copy(tag, g, 8);
	/* step functions */
	o_copy(buf, x0, CNT);
	beltDWPStart(state, key, KLEN, iv);
	beltDWPStepI(i0, LI, state);
	beltDWPStepE(buf, CNT, state);
	beltDWPStepA(buf, CNT, state);
	beltDWPStepG(g, state);
	V_ASSERT(o_eq(buf, e, CNT), "beltDWPStepE == CTR over E from s = E(S)");
	V_ASSERT(o_eq(g, tag, 8), "beltDWPStepG == belt-dwp tag of STB 34.101.31 (header and message zero-padded per block, length block)");
	/* high-level: Wrap == spec; Unwrap inverts it and accepts exactly the right tag */
	{
		octet y[CC], m[8];
		V_ASSERT(beltDWPWrap(y, m, x0, CNT, i0, LI, key, KLEN, iv) == ERR_OK && o_eq(y, e, CNT) && o_eq(m, tag, 8), "beltDWPWrap == spec");
		V_ASSERT(beltDWPUnwrap(back, y, CNT, i0, LI, m, key, KLEN, iv) == ERR_OK && o_eq(back, x0, CNT), "beltDWPUnwrap inverts beltDWPWrap");
		V_ASSERT((beltDWPUnwrap(back, y, CNT, i0, LI, badtag, key, KLEN, iv) == ERR_OK) == o_eq(badtag, tag, 8), "beltDWPUnwrap accepts exactly the tag of the standard");
	}
	V_CANARY("dwp");
}

/* ---- belt-bde (STB 34.101.31, blockwise disk encryption) ----
   spec: s <- E(S); for every block: s <- s * C, Y_i = E(X_i ^ s) ^ s, where * C is the
   multiplication by x in GF(2^128) = GF(2)[x] / (x^128 + x^7 + x^2 + x + 1) on the block read
   as a little-endian 128-bit number.  Written octet-wise here (no code shared with
   beltBlockMulC); group modes.mulc decides beltBlockMulC == this formula for all 2^128 blocks. */
static void spec_mulc(octet s[16])
{
	unsigned carry = 0, c, i;
	for (i = 0; i < 16; ++i) c = s[i] >> 7, s[i] = (octet)((s[i] << 1) | carry), carry = c;
	if (carry) s[0] ^= 0x87;
}
void h_mulc(void)
{
	V_IN_ARR(u32, b, 4);
	octet s[16];
	u32 w[4];
	unsigned i;
	for (i = 0; i < 16; ++i) s[i] = (octet)(b[i / 4] >> (8 * (i % 4)));
	spec_mulc(s);
	for (i = 0; i < 4; ++i) w[i] = (u32)s[4 * i] | (u32)s[4 * i + 1] << 8 | (u32)s[4 * i + 2] << 16 | (u32)s[4 * i + 3] << 24;
	beltBlockMulC(b);
	V_ASSERT(b[0] == w[0] && b[1] == w[1] && b[2] == w[2] && b[3] == w[3], "beltBlockMulC == multiplication by x modulo x^128 + x^7 + x^2 + x + 1 (little-endian block)");
	V_CANARY("mulc");
}
#if (CNT >= 16 && CNT % 16 == 0)
void h_bde(void)
{
	SETUP;
	size_t i;
	octet s[16], t[16];
	V_ALLOC(octet, state, beltBDE_keep());
	E(s, iv, K);
	for (i = 0; i < CNT; i += 16)
	{
		spec_mulc(s);
		o_xor(t, x0 + i, s, 16);
		E(e + i, t, K);
		o_xor(e + i, e + i, s, 16);
	}
	o_copy(buf, x0, CNT);
	beltBDEStart(state, key, KLEN, iv);
	beltBDEStepE(buf, CNT, state);
	V_ASSERT(o_eq(buf, e, CNT), "beltBDEStepE == belt-bde: Y_i = E(X_i ^ s_i) ^ s_i, s_i = s_{i-1} * C, s_0 = E(S)");
	beltBDEStart(state, key, KLEN, iv);
	beltBDEStepD(buf, CNT, state);
	V_ASSERT(o_eq(buf, x0, CNT), "beltBDEStepD inverts beltBDEStepE");
#ifndef VERIF_CBMC	/* the high-level pair wipes a page-rounded blob (about 1000 loop iterations): native build only */
	{
		octet y2[CNT];
		V_ASSERT(beltBDEEncr(y2, x0, CNT, key, KLEN, iv) == ERR_OK && o_eq(y2, e, CNT), "beltBDEEncr == belt-bde");
		V_ASSERT(beltBDEDecr(y2, e, CNT, key, KLEN, iv) == ERR_OK && o_eq(y2, x0, CNT), "beltBDEDecr inverts belt-bde");
	}
#endif
	V_CANARY("bde");
}
#endif

/* ---- belt-wbl (wide block, STB 34.101.31 6.2.3) and belt-sde (sector encryption) ----
   spec of encryption, r = r_1 || ... with r_1 .. r_{n-1} the leading 128-bit blocks, r* the LAST 128 bits, n = ceil(|r| / 128):
     for i = 1 .. 2n:  s <- r_1 ^ ... ^ r_{n-1};  r* <- r* ^ E(s) ^ <i>_128;  r <- ShLo^128(r);  r* <- s
   The real code has a base and an optimised (running-sum, in-place rotating) implementation, switched at 64 octets (encryption)
   and 80 octets (decryption) for whole-block lengths; both are compared with this one text. */
static void spec_wbl(octet r[], size_t count, const u32 key[8])
{
	size_t n = (count + 15) / 16, round, j, i;
	octet s[16], t[16];
	for (round = 1; round <= 2 * n; ++round)
	{
		o_copy(s, r, 16);
		for (j = 1; j + 1 < n; ++j) o_xor(s, s, r + 16 * j, 16);
		E(t, s, key);
		for (i = 0; i < 8; ++i) t[i] ^= (octet)((u64)round >> (8 * i));
		o_xor(r + count - 16, r + count - 16, t, 16);
		for (i = 0; i + 16 < count; ++i) r[i] = r[i + 16];
		o_copy(r + count - 16, s, 16);
	}
}
#if (CNT >= 32)
void h_wbl(void)
{
	SETUP;
	V_ALLOC(octet, state, beltWBL_keep());
	o_copy(e, x0, CNT);
	spec_wbl(e, CNT, K);
	o_copy(buf, x0, CNT);
	beltWBLStart(state, key, KLEN);
	beltWBLStepE(buf, CNT, state);
	V_ASSERT(o_eq(buf, e, CNT), "beltWBLStepE == belt-wbl of STB 34.101.31 (2n rounds over E)");
	beltWBLStepD(buf, CNT, state);
	V_ASSERT(o_eq(buf, x0, CNT), "beltWBLStepD inverts beltWBLStepE");
	V_CANARY("wbl");
}
#if (CNT % 16 == 0)
void h_sde(void)
{
	SETUP;
	octet s[16];
	V_ALLOC(octet, state, beltSDE_keep());
	/* spec: s <- E(S); r <- X; r_1 <- r_1 ^ s; r <- belt-wbl(r); r_1 <- r_1 ^ s */
	E(s, iv, K);
	o_copy(e, x0, CNT);
	o_xor(e, e, s, 16);
	spec_wbl(e, CNT, K);
	o_xor(e, e, s, 16);
	o_copy(buf, x0, CNT);
	beltSDEStart(state, key, KLEN);
	beltSDEStepE(buf, CNT, iv, state);
	V_ASSERT(o_eq(buf, e, CNT), "beltSDEStepE == belt-sde: XEX cascade of belt-wbl with s = E(S)");
	beltSDEStepD(buf, CNT, iv, state);
	V_ASSERT(o_eq(buf, x0, CNT), "beltSDEStepD inverts beltSDEStepE");
	V_CANARY("sde");
}
#endif
#endif

/* ---- length-block arithmetic of belt-hash / belt-mac / DWP / CHE: block <- block + 8 * count on a 128-bit (64-bit)
   little-endian counter, for every block value and every count (added after seeded C01/m5: lost carry between words). ---- */
void h_addbitsize(void)
{
	V_IN_ARR(u32, b, 4);
	V_IN(size_t, count);
	u32 w[4];
	word h[W_OF_B(64)], h0[W_OF_B(64)];
	u64 lo, hi, hx = 0, hy = 0;
	unsigned i;
	/* 128-bit sum in two 64-bit halves: 8 * count = (count >> 61) * 2^64 + (count << 3 mod 2^64) */
	lo = ((u64)b[1] << 32 | b[0]) + ((u64)count << 3);
	hi = ((u64)b[3] << 32 | b[2]) + ((u64)count >> 61) + (lo < ((u64)count << 3));
	w[0] = (u32)lo, w[1] = (u32)(lo >> 32), w[2] = (u32)hi, w[3] = (u32)(hi >> 32);
	/* half block: the words of h0 are taken from b */
	for (i = 0; i < W_OF_B(64); ++i)
#if (B_PER_W == 64)
		h0[i] = h[i] = (word)b[0] | (word)b[1] << 32;
#else
		h0[i] = h[i] = b[i];
#endif
	for (i = 0; i < W_OF_B(64); ++i) hx |= (u64)h0[i] << (B_PER_W % 64 * i);
	hx += (u64)count << 3;
	beltBlockAddBitSizeU32(b, count);
	V_ASSERT(b[0] == w[0] && b[1] == w[1] && b[2] == w[2] && b[3] == w[3], "beltBlockAddBitSizeU32: block + 8 * count modulo 2^128, every block and count");
	beltHalfBlockAddBitSizeW(h, count);
	for (i = 0; i < W_OF_B(64); ++i) hy |= (u64)h[i] << (B_PER_W % 64 * i);
	V_ASSERT(hx == hy, "beltHalfBlockAddBitSizeW: half block + 8 * count modulo 2^64, every half block and count");
	V_CANARY("addbitsize");
}
