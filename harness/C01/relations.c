/* C01 (level N, NOT proof): relations of the belt bundles that have no standard-level spec in this revision
   (KWP, CHE, BDE, SDE): unwrap/decrypt inverts wrap/encrypt for every admissible length; authenticated modes
   (KWP header, CHE tag) reject every single-bit alteration of the protected data, the tag / header, the
   associated data, the key and the iv; a zero header is demanded when none is given. */
#include "verif.h"
#include "bee2/crypto/belt.h"
#include "bee2/core/err.h"
#include "bee2/core/mem.h"

#define MAXD 80
void h_relations(void)
{
	V_IN_ARR(octet, data, MAXD); V_IN_ARR(octet, ad, 40); V_IN_ARR(octet, key, 32); V_IN_ARR(octet, iv, 16); V_IN_ARR(octet, header, 16);
	V_IN(unsigned, sel); V_IN(unsigned, flip);
	V_NATIVE_ONLY({
		size_t klen = 16 + 8 * (sel % 3), cnt = 16 + (sel / 3) % (MAXD - 16 - 15), c1 = (sel / 512) % (MAXD + 1), c2 = (sel / 65536) % 41;
		octet ct[MAXD + 16], pt[MAXD + 16], mac[8], k2[32], x[MAXD + 16]; int with_hdr = (flip >> 20) & 1; size_t pos; octet bit = (octet)(1 << (flip % 8));
		const octet* hdr = with_hdr ? header : 0;
		memcpy(k2, key, 32); k2[(flip / 8) % klen] ^= bit;
		/* KWP */
		V_ASSERT(beltKWPWrap(ct, data, cnt, hdr, key, klen) == ERR_OK, "beltKWPWrap on count >= 16");
		V_ASSERT(beltKWPUnwrap(pt, ct, cnt + 16, hdr, key, klen) == ERR_OK && memcmp(pt, data, cnt) == 0, "KWP: unwrap inverts wrap");
		memcpy(x, ct, cnt + 16); pos = (flip / 8) % (cnt + 16); x[pos] ^= bit;
		V_ASSERT(beltKWPUnwrap(pt, x, cnt + 16, hdr, key, klen) == ERR_BAD_KEYTOKEN, "KWP: altered token rejected");
		V_ASSERT(beltKWPUnwrap(pt, ct, cnt + 16, hdr, k2, klen) == ERR_BAD_KEYTOKEN, "KWP: token rejected under another key");
		if (with_hdr)
		{
			octet h2[16]; memcpy(h2, header, 16); h2[(flip / 8) % 16] ^= bit;
			V_ASSERT(beltKWPUnwrap(pt, ct, cnt + 16, h2, key, klen) == ERR_BAD_KEYTOKEN, "KWP: token rejected under another header");
			if (!memIsZero(header, 16)) V_ASSERT(beltKWPUnwrap(pt, ct, cnt + 16, 0, key, klen) == ERR_BAD_KEYTOKEN, "KWP: non-zero header rejected when a zero header is expected");
		}
		V_ASSERT(beltKWPWrap(ct, data, 15, hdr, key, klen) == ERR_BAD_INPUT && beltKWPUnwrap(pt, ct, 31, hdr, key, klen) == ERR_BAD_INPUT, "KWP: short key rejected");
		/* CHE */
		V_ASSERT(beltCHEWrap(ct, mac, data, c1, ad, c2, key, klen, iv) == ERR_OK, "beltCHEWrap");
		V_ASSERT(beltCHEUnwrap(pt, ct, c1, ad, c2, mac, key, klen, iv) == ERR_OK && memcmp(pt, data, c1) == 0, "CHE: unwrap inverts wrap");
		if (c1) { memcpy(x, ct, c1); x[(flip / 8) % c1] ^= bit; V_ASSERT(beltCHEUnwrap(pt, x, c1, ad, c2, mac, key, klen, iv) == ERR_BAD_MAC, "CHE: altered ciphertext rejected"); }
		if (c2) { memcpy(x, ad, c2); x[(flip / 8) % c2] ^= bit; V_ASSERT(beltCHEUnwrap(pt, ct, c1, x, c2, mac, key, klen, iv) == ERR_BAD_MAC, "CHE: altered associated data rejected"); }
		{ octet m2[8]; memcpy(m2, mac, 8); m2[(flip / 8) % 8] ^= bit; V_ASSERT(beltCHEUnwrap(pt, ct, c1, ad, c2, m2, key, klen, iv) == ERR_BAD_MAC, "CHE: altered tag rejected"); }
		{ octet iv2[16]; memcpy(iv2, iv, 16); iv2[(flip / 8) % 16] ^= bit; V_ASSERT(beltCHEUnwrap(pt, ct, c1, ad, c2, mac, key, klen, iv2) == ERR_BAD_MAC, "CHE: another iv rejected"); }
		V_ASSERT(beltCHEUnwrap(pt, ct, c1, ad, c2, mac, k2, klen, iv) == ERR_BAD_MAC, "CHE: another key rejected");
		/* DWP: same alterations */
		V_ASSERT(beltDWPWrap(ct, mac, data, c1, ad, c2, key, klen, iv) == ERR_OK && beltDWPUnwrap(pt, ct, c1, ad, c2, mac, key, klen, iv) == ERR_OK && memcmp(pt, data, c1) == 0, "DWP: unwrap inverts wrap");
		V_ASSERT(beltDWPUnwrap(pt, ct, c1, ad, c2, mac, k2, klen, iv) == ERR_BAD_MAC, "DWP: another key rejected");
		if (c2) { memcpy(x, ad, c2); x[(flip / 8) % c2] ^= bit; V_ASSERT(beltDWPUnwrap(pt, ct, c1, x, c2, mac, key, klen, iv) == ERR_BAD_MAC, "DWP: altered associated data rejected"); }
		/* BDE: whole blocks; SDE: sectors of >= 32 octets, whole blocks */
		{
			size_t nb = 16 * (1 + (sel / 7) % 4);
			V_ASSERT(beltBDEEncr(ct, data, nb, key, klen, iv) == ERR_OK && beltBDEDecr(pt, ct, nb, key, klen, iv) == ERR_OK && memcmp(pt, data, nb) == 0, "BDE: decryption inverts encryption");
			V_ASSERT(beltBDEEncr(ct, data, nb + 1, key, klen, iv) == ERR_BAD_INPUT, "BDE: ragged length rejected");
			nb = 32 + 16 * ((sel / 11) % 3);
			V_ASSERT(beltSDEEncr(ct, data, nb, key, klen, iv) == ERR_OK && beltSDEDecr(pt, ct, nb, key, klen, iv) == ERR_OK && memcmp(pt, data, nb) == 0, "SDE: decryption inverts encryption");
		}
	})
	(void)sel; (void)flip;
	V_CANARY("relations");
}
