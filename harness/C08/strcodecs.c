/* C08 groups str.*: hex, base64 and decimal string codecs: validators == grammar predicate,
   To(From(x)) == x, From(To(s)) == canonical s, on strings of exactly SLEN characters held in
   an object of exactly SLEN + 1 octets (no slack after the terminator).  SLEN concrete,
   contents symbolic. */
#include "verif.h"
#include "bee2/core/hex.h"
#include "bee2/core/b64.h"
#include "bee2/core/dec.h"
#include "bee2/core/mem.h"
#include "bee2/core/str.h"

#ifndef SLEN
#define SLEN 6
#endif
#ifndef CNT
#define CNT 4
#endif
static int is_hex(char c) { return (c >= '0' && c <= '9') || (c >= 'A' && c <= 'F') || (c >= 'a' && c <= 'f'); }
static int hv(char c) { return c <= '9' ? c - '0' : (c | 0x20) - 'a' + 10; }
static int is_b64(char c) { return (c >= 'A' && c <= 'Z') || (c >= 'a' && c <= 'z') || (c >= '0' && c <= '9') || c == '+' || c == '/'; }
static int b64v(char c) { return c >= 'A' && c <= 'Z' ? c - 'A' : c >= 'a' && c <= 'z' ? c - 'a' + 26 : c >= '0' && c <= '9' ? c - '0' + 52 : c == '+' ? 62 : 63; }

/* a string of exactly SLEN non-zero characters + terminator in an exact-size object */
#define STRING(name, raw) \
	V_BUF(char, name, SLEN + 1); \
	{ size_t i_; for (i_ = 0; i_ < SLEN; ++i_) name[i_] = raw[i_]; name[SLEN] = 0; }

void h_hex(void)
{
	V_IN_ARR(char, raw, SLEN ? SLEN : 1);
	V_IN_ARR(octet, data, CNT ? CNT : 1);
	size_t i;
	int valid = (SLEN % 2 == 0);
	{ size_t k; for (k = 0; k < SLEN; ++k) V_ASSUME(raw[k] != 0); }
	V_TWEAK(raw, for (i = 0; i < SLEN; ++i) if (v_rand() % 8) raw[i] = "0123456789abcdefABCDEF"[v_rand() % 22]);
	{
		STRING(s, raw);
		for (i = 0; i < SLEN; ++i) valid &= is_hex(raw[i]);
		V_ASSERT(hexIsValid(s) == valid, "hexIsValid == even number of characters from [0-9A-Fa-f]");
		if (valid)
		{
			octet out[SLEN / 2 + 1], rev[SLEN / 2 + 1]; int ok = 1;
			hexTo(out, s);
			for (i = 0; i < SLEN / 2; ++i) ok &= (out[i] == (octet)(hv(raw[2 * i]) * 16 + hv(raw[2 * i + 1])));
			V_ASSERT(ok, "hexTo decodes pairs, first pair -> first octet");
			hexToRev(rev, s);
			for (ok = 1, i = 0; i < SLEN / 2; ++i) ok &= (rev[i] == out[SLEN / 2 - 1 - i]);
			V_ASSERT(ok, "hexToRev == reversed hexTo");
			V_ASSERT(hexEq(out, s) && FAST(hexEq)(out, s) && hexEqRev(rev, s) && FAST(hexEqRev)(rev, s), "hexEq / hexEqRev accept the decoded buffer (both editions)");
			if (SLEN) { out[0] ^= 1; V_ASSERT(!hexEq(out, s) && !FAST(hexEq)(out, s), "hexEq rejects a different buffer (both editions)"); }
		}
	}
	{	/* encoder -> decoder */
		V_BUF(char, enc, 2 * CNT + 1);
		octet back[CNT ? CNT : 1]; int ok = 1;
		hexFrom(enc, data, CNT);
		V_ASSERT(enc[2 * CNT] == 0 && hexIsValid(enc), "hexFrom writes a valid string of 2 * count characters");
		for (i = 0; i < 2 * CNT; ++i) ok &= !(enc[i] >= 'a' && enc[i] <= 'f');
		V_ASSERT(ok, "hexFrom prefers upper case");
		hexTo(back, enc);
		for (ok = 1, i = 0; i < CNT; ++i) ok &= (back[i] == data[i]);
		V_ASSERT(ok, "hexTo inverts hexFrom");
		hexFromRev(enc, data, CNT); hexToRev(back, enc);
		for (ok = 1, i = 0; i < CNT; ++i) ok &= (back[i] == data[i]);
		V_ASSERT(ok, "hexToRev inverts hexFromRev");
	}
	V_CANARY("hex");
}

void h_b64(void)
{
	V_IN_ARR(char, raw, SLEN ? SLEN : 1);
	V_IN_ARR(octet, data, CNT ? CNT : 1);
	size_t i;
	{ size_t k; for (k = 0; k < SLEN; ++k) V_ASSUME(raw[k] != 0); }
	V_TWEAK(raw, for (i = 0; i < SLEN; ++i) if (v_rand() % 8) raw[i] = "ABCDwxyz0189+/=="[v_rand() % 16]; if (SLEN >= 4 && v_rand() % 2) { raw[SLEN - 1] = '='; if (v_rand() % 2) raw[SLEN - 2] = '='; });
	{
		STRING(s, raw);
		int valid = (SLEN % 4 == 0);
		size_t pad = 0;
		if (SLEN >= 4) pad = raw[SLEN - 1] != '=' ? 0 : raw[SLEN - 2] != '=' ? 1 : 2;
		for (i = 0; i + pad < SLEN; ++i) valid &= is_b64(raw[i]);
		if (valid && pad == 1) valid &= ((b64v(raw[SLEN - 2]) & 3) == 0);
		if (valid && pad == 2) valid &= ((b64v(raw[SLEN - 3]) & 15) == 0);
		V_ASSERT(b64IsValid(s) == valid, "b64IsValid == RFC 4648 grammar with zero padding bits");
		if (valid)
		{
			size_t n = SIZE_MAX, n2;
			b64To(0, &n, s);
			V_ASSERT(n == 3 * (SLEN / 4) - pad, "b64To(NULL): decoded size == 3 * blocks - padding");
			{
				V_TAIL(octet, out, n, 3 * SLEN / 4 + 1);
				V_BUF(char, again, 4 * ((3 * SLEN / 4 + 2) / 3) + 1);
				n2 = n;
				b64To(out, &n2, s);
				V_ASSERT(n2 == n, "b64To(NULL) == b64To(buf)");
				b64From(again, out, n);
				V_ASSERT(strEq(again, s), "b64To accepted => b64From reproduces the accepted string");
			}
		}
	}
	{
		V_BUF(char, enc, 4 * ((CNT + 2) / 3) + 1);
		octet back[CNT + 3]; size_t n = CNT + 3; int ok = 1;
		b64From(enc, data, CNT);
		V_ASSERT(b64IsValid(enc) && strLen(enc) == 4 * ((CNT + 2) / 3), "b64From writes a valid string of 4 * ceil(count / 3) characters");
		b64To(back, &n, enc);
		for (i = 0; i < CNT; ++i) ok &= (back[i] == data[i]);
		V_ASSERT(n == CNT && ok, "b64To inverts b64From");
	}
	V_CANARY("b64");
}

void h_dec(void)
{
	V_IN_ARR(char, raw, SLEN ? SLEN : 1);
	V_IN(u32, num);
	size_t i;
	{ size_t k; for (k = 0; k < SLEN; ++k) V_ASSUME(raw[k] != 0); }
	V_TWEAK(raw, for (i = 0; i < SLEN; ++i) if (v_rand() % 8) raw[i] = (char)('0' + v_rand() % 10));
	{
		STRING(s, raw);
		int valid = 1; size_t lz = 0;
		for (i = 0; i < SLEN; ++i) valid &= (raw[i] >= '0' && raw[i] <= '9');
		V_ASSERT(decIsValid(s) == valid, "decIsValid == all characters are decimal digits");
		if (valid)
		{
			while (lz < SLEN && raw[lz] == '0') ++lz;
			V_ASSERT(decCLZ(s) == lz, "decCLZ == number of leading zeros");
			if (SLEN <= 9)
			{
				u32 e = 0; char back[SLEN + 1];
				for (i = 0; i < SLEN; ++i) e = e * 10 + (u32)(raw[i] - '0');
				V_ASSERT(decToU32(s) == e, "decToU32 == decimal value");
				/* decimal division chains: no SAT answer in 900 s (measured) -> native runs only */
				V_NATIVE_ONLY(decFromU32(back, SLEN, e);
				V_ASSERT(strEq(back, s), "decFromU32 inverts decToU32 (zero-padded to the same length)");)
				(void)back;
			}
			if (SLEN >= 1)
			{
				char c = decLuhnCalc(s), d = decDammCalc(s);
				V_BUF(char, t, SLEN + 2);
				for (i = 0; i < SLEN; ++i) t[i] = raw[i];
				t[SLEN] = c, t[SLEN + 1] = 0;
				V_ASSERT(c >= '0' && c <= '9' && decLuhnVerify(t), "decLuhnVerify accepts the digit computed by decLuhnCalc");
				t[SLEN] = d;
				V_ASSERT(d >= '0' && d <= '9' && decDammVerify(t), "decDammVerify accepts the digit computed by decDammCalc");
				t[SLEN] = (char)('0' + (d - '0' + 1) % 10);
				V_ASSERT(!decDammVerify(t), "decDammVerify rejects any other check digit");
			}
		}
	}
	{
		V_BUF(char, out, 11);
		u32 back;
		decFromU32(out, 10, num);
		V_ASSERT(decIsValid(out) && strLen(out) == 10, "decFromU32 writes 10 decimal digits");
		V_NATIVE_ONLY(V_ASSERT((back = decToU32(out)) == num, "decToU32 inverts decFromU32 on 10 digits");)
		(void)back;
	}
	V_CANARY("dec");
}

/* OID strings: oidIsValid == grammar d1.d2[.d3...] (d1 <= 2, d2 < 40 if d1 < 2, no leading zeros,
   every arc and 40 * d1 + d2 fit u32); oidFromDER(oidToDER(s)) == s */
#include "bee2/core/oid.h"
static int spec_oid_valid(const char* s, size_t n)
{
	size_t i = 0, arcs = 0;
	unsigned long long d1 = 0;
	while (1)
	{
		unsigned long long v = 0; size_t start = i;
		while (i < n && s[i] >= '0' && s[i] <= '9')
		{
			v = v * 10 + (unsigned long long)(s[i] - '0');
			if (v > 0xFFFFFFFFull) return 0;
			++i;
		}
		if (i == start) return 0;                          /* empty arc */
		if (i - start > 1 && s[start] == '0') return 0;   /* leading zero */
		if (arcs == 0) { if (v > 2) return 0; d1 = v; }
		if (arcs == 1) { if (d1 < 2 && v >= 40) return 0; if (40 * d1 + v > 0xFFFFFFFFull) return 0; }
		++arcs;
		if (i == n) break;
		if (s[i] != '.') return 0;
		++i;
	}
	return arcs >= 2;
}
void h_oid(void)
{
	V_IN_ARR(char, raw, SLEN ? SLEN : 1);
	size_t i;
	{ size_t k; for (k = 0; k < SLEN; ++k) V_ASSUME(raw[k] != 0); }
	V_TWEAK(raw, for (i = 0; i < SLEN; ++i) if (v_rand() % 16) raw[i] = "0123456789.."[v_rand() % 12]; if (SLEN > 2 && v_rand() % 2) { raw[0] = (char)('0' + v_rand() % 3); raw[1] = '.'; });
	{
		STRING(s, raw);
		int valid = spec_oid_valid(raw, SLEN);
		V_ASSERT(oidIsValid(s) == valid, "oidIsValid == OID grammar");
		{
			size_t n = oidToDER(0, s);
			V_ASSERT((n == SIZE_MAX) == !valid, "oidToDER fails exactly for invalid identifiers");
			V_NATIVE_ONLY(if (valid) {
				V_ALLOC(octet, der, n); size_t l;
				V_ASSERT(oidToDER(der, s) == n, "oidToDER(NULL) == oidToDER(buf)");
				l = oidFromDER(0, der, n);
				V_ASSERT(l == SLEN, "oidFromDER(NULL): string length");
				{ V_ALLOC(char, back, l + 1); V_ASSERT(oidFromDER(back, der, n) == l && strEq(back, s), "oidFromDER inverts oidToDER"); }
				if (n > 2) V_ASSERT(oidFromDER(0, der, n - 1) == SIZE_MAX, "oidFromDER rejects a truncated code"); })
		}
	}
	V_CANARY("oid");
}
