/* C08 groups der.*: decoders of src/core/der.c are total, bounded and canonical, and
   encode/decode are mutually inverse.  The input is a heap object of exactly `count`
   octets, count symbolic in 0..CMAX, contents symbolic.  der.c is included textually
   so that the static T and L codecs are under contract as well. */
#include "verif.h"
#include "bee2/core/mem.h"
#include "bee2/core/str.h"
#include "bee2/core/oid.h"
#include "bee2/core/util.h"
#include "src/core/der.c"

#ifndef CMAX
#define CMAX 14
#endif

/* The decoders only read forwards from der, so under CBMC the input is right-aligned in
   a fixed array: der + count is the end of the object and any over-read is out of bounds
   (a symbolic-size heap object makes every query ~10x larger -- measured).  The native
   build uses a heap object of exactly count octets. */
#ifdef VERIF_CBMC
#define INPUT \
	V_IN(size_t, count); \
	V_IN_ARR(octet, data, CMAX); \
	octet buf_[CMAX]; \
	octet* der; \
	V_ASSUME(count <= CMAX); \
	der = buf_ + (CMAX - count); \
	{ size_t i_; for (i_ = 0; i_ < CMAX; ++i_) if (i_ < count) der[i_] = data[i_]; }
#else
#define INPUT \
	V_IN(size_t, count); \
	V_IN_ARR(octet, data, CMAX); \
	V_TWEAK(count, count %= CMAX + 1); \
	V_ASSUME(count <= CMAX); \
	V_ALLOC(octet, der, count); \
	{ size_t i_; for (i_ = 0; i_ < CMAX; ++i_) if (i_ < count) der[i_] = data[i_]; }
#endif

static int o_eq(const octet* a, const octet* b, size_t n)
{
	size_t i;
	for (i = 0; i < n; ++i)
		if (a[i] != b[i])
			return 0;
	return 1;
}
#define BOUNDED(r) ((r) == SIZE_MAX || (r) <= count)

/* T and L codecs, TL pair */
void h_der_tl(void)
{
	INPUT
	u32 tag = 0xFFFFFFFF;
	size_t len = 0, r;
	octet out[CMAX + 8];
	r = derTDec(&tag, der, count);
	V_ASSERT(r == SIZE_MAX || (r >= 1 && r <= 4 && r <= count), "derTDec: failure or 1..4 octets consumed, not more than the input");
	if (r != SIZE_MAX)
	{
		V_ASSERT(derTIsValid(tag), "derTDec accepts only tags that derTIsValid accepts");
		V_ASSERT(derTEnc(out, tag) == r && o_eq(out, der, r), "derTDec accepted => derTEnc reproduces the accepted octets");
	}
	r = derLDec(&len, der, count);
	V_ASSERT(r == SIZE_MAX || (r >= 1 && r <= 1 + O_PER_S && r <= count), "derLDec: failure or 1..9 octets consumed, not more than the input");
	if (r != SIZE_MAX)
		V_ASSERT(derLEnc(out, len) == r && o_eq(out, der, r), "derLDec accepted => derLEnc reproduces the accepted octets (minimal form)");
	r = derTLDec(&tag, &len, der, count);
	V_ASSERT(BOUNDED(r), "derTLDec: failure or consumed <= count");
	if (r != SIZE_MAX)
		V_ASSERT(derTLEnc(out, tag, len) == r && o_eq(out, der, r), "derTLDec accepted => derTLEnc reproduces the accepted octets");
	V_ASSERT(derStartsWith(der, count, tag) == (derTDec(&tag, der, count) != SIZE_MAX), "derStartsWith agrees with derTDec");
	V_CANARY("der_tl");
}

/* encoder -> decoder: T, L, TL for every valid tag and every length */
void h_der_tl_enc(void)
{
	V_IN(u32, tag);
	V_IN(size_t, len);
	octet out[16];
	u32 t2;
	size_t l2, r;
	V_TWEAK(tag, if (v_rand() % 2) tag &= 0xFF; else if (v_rand() % 2) tag = (tag & 0x7F7F) | 0x1F00 | (v_rand() % 8 << 13));
	r = derTLEnc(0, tag, len);
	V_ASSERT(r == SIZE_MAX || r <= 4 + 1 + O_PER_S, "derTLEnc length bounded");
	V_ASSERT((r == SIZE_MAX) == !derTIsValid(tag), "derTLEnc fails exactly for invalid tags");
	if (r != SIZE_MAX)
	{
		V_ASSERT(derTLEnc(out, tag, len) == r, "derTLEnc(NULL) == derTLEnc(buf)");
		if (len != SIZE_MAX)
			V_ASSERT(derTLDec(&t2, &l2, out, r) == r && t2 == tag && l2 == len, "derTLDec inverts derTLEnc");
	}
	V_CANARY("der_tl_enc");
}

/* TLV */
void h_der_dec(void)
{
	INPUT
	V_IN(u32, xtag);
	u32 tag;
	const octet* val = 0;
	size_t len, r;
	octet out[CMAX + 2];
	r = derDec(&tag, &val, &len, der, count);
	V_ASSERT(BOUNDED(r), "derDec: failure or consumed <= count");
	if (r != SIZE_MAX)
	{
		V_ASSERT(val >= der && len <= count && (size_t)(val - der) + len == r, "derDec: value lies inside the consumed prefix");
		V_ASSERT(derEnc(0, tag, val, len) == r, "derDec accepted => derEnc(NULL) gives the consumed length");
		V_ASSERT(derEnc(out, tag, val, len) == r && o_eq(out, der, r), "derDec accepted => derEnc reproduces the accepted octets");
		V_ASSERT(derIsValid(der, r), "derDec accepted => derIsValid on the consumed prefix");
		V_ASSERT(derIsValid2(der, r, tag), "derDec accepted => derIsValid2 with the decoded tag");
		V_ASSERT(derDec2(0, 0, der, count, tag) == r && derDec3(0, der, count, tag, len) == r &&
			derDec4(der, count, tag, val, len) == r, "derDec2/3/4 agree with derDec");
	}
	V_ASSERT(derIsValid(der, count) == (r == count), "derIsValid(der, count) iff derDec consumes exactly count");
	V_ASSERT(!derIsValid2(der, count, xtag) || (r == count && tag == xtag), "derIsValid2 => valid with that tag");
	V_ASSERT(derDec2(0, 0, der, count, xtag) == ((r != SIZE_MAX && tag == xtag) ? r : SIZE_MAX), "derDec2 == derDec + tag check");
	V_CANARY("der_dec");
}

/* SIZE (unsigned INTEGER that fits size_t) */
void h_der_size(void)
{
	INPUT
	V_IN(u32, tag);
	V_IN(size_t, v0);
	size_t v = 0, r;
	octet out[CMAX + 16];
	V_TWEAK(tag, tag = 0x02);
	V_TWEAK(data, if (count) { data[0] = 0x02; der[0] = 0x02; });
	r = derTSIZEDec(&v, der, count, tag);
	V_ASSERT(BOUNDED(r), "derTSIZEDec: failure or consumed <= count");
	if (r != SIZE_MAX)
	{
		V_ASSERT(derTSIZEEnc(out, tag, v) == r && o_eq(out, der, r), "derTSIZEDec accepted => derTSIZEEnc reproduces the accepted octets");
		V_ASSERT(derTSIZEDec2(der, count, tag, v) == r, "derTSIZEDec2 agrees");
		V_ASSERT(derIsValid2(der, r, tag), "derTSIZEDec accepted => valid TLV");
	}
	/* encoder -> decoder */
	r = derTSIZEEnc(0, tag, v0);
	V_ASSERT((r == SIZE_MAX) == !derTIsValid(tag), "derTSIZEEnc fails exactly for invalid tags");
	if (r != SIZE_MAX)
	{
		V_ASSERT(r <= 4 + 1 + O_PER_S + 1 && derTSIZEEnc(out, tag, v0) == r, "derTSIZEEnc(NULL) == derTSIZEEnc(buf)");
		V_ASSERT(derTSIZEDec(&v, out, r, tag) == r && v == v0, "derTSIZEDec inverts derTSIZEEnc");
	}
	V_CANARY("der_size");
}

/* UINT, BIT, OCT, PSTR: probe the length first, then decode into exactly that much */
void h_der_uint(void)
{
	INPUT
	V_IN(u32, tag);
	size_t len = 0, r, r2;
	octet out[CMAX + 2];
	V_TWEAK(tag, tag = 0x02);
	V_TWEAK(data, if (count) { data[0] = 0x02; der[0] = 0x02; });
	r = derTUINTDec(0, &len, der, count, tag);
	V_ASSERT(BOUNDED(r), "derTUINTDec: failure or consumed <= count");
	if (r != SIZE_MAX)
	{
		V_ASSERT(len >= 1 && len <= count, "derTUINTDec: value length inside the input");
		{
			V_TAIL(octet, val, len, CMAX);
			r2 = derTUINTDec(val, 0, der, count, tag);
			V_ASSERT(r2 == r, "derTUINTDec(NULL) == derTUINTDec(buf)");
			V_ASSERT(derTUINTEnc(0, tag, val, len) == r, "derTUINTEnc(NULL) gives the consumed length");
			V_ASSERT(derTUINTEnc(out, tag, val, len) == r && o_eq(out, der, r), "derTUINTDec accepted => derTUINTEnc reproduces the accepted octets");
			V_ASSERT(derTUINTDec2(val, der, count, tag, len) == r, "derTUINTDec2 agrees");
		}
	}
	V_CANARY("der_uint");
}

void h_der_uint_enc(void)
{
	V_IN(u32, tag);
	V_IN(size_t, len);
	V_IN_ARR(octet, v0, 6);
	octet out[16], back[6];
	size_t r, l2 = 0;
	V_TWEAK(tag, tag = 0x02);
	V_TWEAK(len, len = 1 + len % 6);
	V_ASSUME(len >= 1 && len <= 6 && derTIsValid(tag));
	r = derTUINTEnc(0, tag, v0, len);
	V_ASSERT(r != SIZE_MAX && r <= 4 + 1 + 7 && derTUINTEnc(out, tag, v0, len) == r, "derTUINTEnc(NULL) == derTUINTEnc(buf)");
	V_ASSERT(derTUINTDec(0, &l2, out, r, tag) == r && l2 >= 1 && l2 <= len, "derTUINTDec accepts what derTUINTEnc produced");
	V_ASSERT(derTUINTDec(back, 0, out, r, tag) == r, "derTUINTDec decodes it");
	{
		size_t i; int ok = 1;
		for (i = 0; i < 6; ++i) if (i < len) ok &= ((i < l2 ? back[i] : 0) == v0[i]);
		V_ASSERT(ok, "derTUINTDec inverts derTUINTEnc (up to insignificant zero octets)");
	}
	V_CANARY("der_uint_enc");
}

void h_der_bit(void)
{
	INPUT
	V_IN(u32, tag);
	size_t len = 0, r;
	octet out[CMAX + 2];
	V_TWEAK(tag, tag = 0x03);
	V_TWEAK(data, if (count) { data[0] = 0x03; der[0] = 0x03; });
	r = derTBITDec(0, &len, der, count, tag);
	V_ASSERT(BOUNDED(r), "derTBITDec: failure or consumed <= count");
	if (r != SIZE_MAX)
	{
		V_ASSERT((len + 7) / 8 <= count, "derTBITDec: bit length inside the input");
		{
			V_TAIL(octet, val, (len + 7) / 8, CMAX);
			V_ASSERT(derTBITDec(val, 0, der, count, tag) == r, "derTBITDec(NULL) == derTBITDec(buf)");
			V_ASSERT(derTBITDec2(val, der, count, tag, len) == r, "derTBITDec2 agrees");
			if (derTBITEnc(out, tag, val, len) == r && o_eq(out, der, r))
				;
			else
				/* DER: unused bits of the last octet must be zero, so a re-encoding mismatch means non-canonical input was accepted */
				V_ASSERT(0, "derTBITDec accepted => derTBITEnc reproduces the accepted octets");
		}
	}
	V_CANARY("der_bit");
}

void h_der_oct(void)
{
	INPUT
	V_IN(u32, tag);
	size_t len = 0, r;
	octet out[CMAX + 2];
	V_TWEAK(tag, tag = 0x04);
	V_TWEAK(data, if (count) { data[0] = 0x04; der[0] = 0x04; });
	r = derTOCTDec(0, &len, der, count, tag);
	V_ASSERT(BOUNDED(r), "derTOCTDec: failure or consumed <= count");
	if (r != SIZE_MAX)
	{
		V_ASSERT(len <= count, "derTOCTDec: length inside the input");
		{
			V_TAIL(octet, val, len, CMAX);
			V_ASSERT(derTOCTDec(val, 0, der, count, tag) == r, "derTOCTDec(NULL) == derTOCTDec(buf)");
			V_ASSERT(derTOCTDec2(val, der, count, tag, len) == r, "derTOCTDec2 agrees");
			V_ASSERT(derEnc(out, tag, val, len) == r && o_eq(out, der, r), "derTOCTDec accepted => derEnc reproduces the accepted octets");
		}
	}
	V_CANARY("der_oct");
}

void h_der_pstr(void)
{
	INPUT
	V_IN(u32, tag);
	size_t len = 0, r;
	octet out[CMAX + 2];
	V_TWEAK(tag, tag = 0x13);
	V_TWEAK(data, if (count) { data[0] = 0x13; der[0] = 0x13; });
	r = derTPSTRDec(0, &len, der, count, tag);
	V_ASSERT(BOUNDED(r), "derTPSTRDec: failure or consumed <= count");
	if (r != SIZE_MAX)
	{
		V_ASSERT(len <= count, "derTPSTRDec: length inside the input");
		{
			V_TAIL(char, val, len + 1, CMAX + 1);
			V_ASSERT(derTPSTRDec(val, 0, der, count, tag) == r, "derTPSTRDec(NULL) == derTPSTRDec(buf)");
			V_ASSERT(derTPSTREnc(out, tag, val) == r && o_eq(out, der, r), "derTPSTRDec accepted => derTPSTREnc reproduces the accepted octets");
		}
	}
	V_CANARY("der_pstr");
}

/* OID: probe the string length, decode into exactly len + 1 characters */
void h_der_oid(void)
{
	INPUT
	size_t len = 0, r;
	octet out[CMAX + 8];
	V_TWEAK(data, if (count) { data[0] = 0x06; der[0] = 0x06; });
	r = derOIDDec(0, &len, der, count);
	V_ASSERT(BOUNDED(r), "derOIDDec: failure or consumed <= count");
	if (r != SIZE_MAX)
	{
		V_ASSERT(len <= 11 * count + 2, "derOIDDec: string length bounded by the input");
		{
			V_TAIL(char, oid, len + 1, 11 * CMAX + 3);
			size_t l2 = 0;
			V_ASSERT(derOIDDec(oid, &l2, der, count) == r && l2 == len, "derOIDDec(NULL) == derOIDDec(buf)");
			V_ASSERT(oid[len] == 0, "derOIDDec terminates the string");
			V_ASSERT(oidIsValid(oid), "derOIDDec accepted => the string is a valid OID");
#if !defined(VERIF_CBMC) || defined(OID_CANON)
			/* decimal-string round trip: division/multiplication by 10 per digit; no SAT answer
			   in 900 s even for 4 value octets -> attempted on SMT, native search stands in */
			V_ASSERT(derOIDDec2(der, count, oid) == r, "derOIDDec2 agrees");
			V_ASSERT(derOIDEnc(0, oid) == r, "derOIDEnc(NULL) gives the consumed length");
			V_ASSERT(derOIDEnc(out, oid) == r && o_eq(out, der, r), "derOIDDec accepted => derOIDEnc reproduces the accepted octets");
#endif
		}
	}
	V_CANARY("der_oid");
}
