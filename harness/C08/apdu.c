/* C08 groups apdu.*: APDU command / response codecs (src/core/apdu.c): decoders total and
   bounded, accepted input re-encodes to itself, encoders are inverted by decoders for every
   Lc/Le form.  Decoder input: exactly `count` octets (count symbolic 0..CMAX under CBMC,
   right-aligned in a fixed array; heap object natively). */
#include "verif.h"
#include "bee2/core/apdu.h"
#include "bee2/core/mem.h"

#ifndef CMAX
#define CMAX 12
#endif
#ifdef VERIF_CBMC
#define INPUT \
	V_IN(size_t, count); V_IN_ARR(octet, data, CMAX); \
	octet buf_[CMAX]; octet* in; \
	V_ASSUME(count <= CMAX); in = buf_ + (CMAX - count); \
	{ size_t i_; for (i_ = 0; i_ < CMAX; ++i_) if (i_ < count) in[i_] = data[i_]; }
#else
#define INPUT \
	V_IN(size_t, count); V_IN_ARR(octet, data, CMAX); \
	V_TWEAK(count, count %= CMAX + 1); \
	V_TWEAK(data, if (v_rand() % 2) data[4] = 0; if (v_rand() % 2) { data[5] = 0; data[6] = (octet)(v_rand() % 8); }); \
	V_ASSUME(count <= CMAX); V_ALLOC(octet, in, count); \
	{ size_t i_; for (i_ = 0; i_ < CMAX; ++i_) if (i_ < count) in[i_] = data[i_]; }
#endif
static int o_eq(const octet* a, const octet* b, size_t n)
{
	size_t i;
	for (i = 0; i < n; ++i) if (a[i] != b[i]) return 0;
	return 1;
}

void h_apdu_cmd_dec(void)
{
	INPUT
	size_t sz = apduCmdDec(0, in, count);
	V_ASSERT(sz == SIZE_MAX || (sz >= sizeof(apdu_cmd_t) && sz <= sizeof(apdu_cmd_t) + count), "apduCmdDec: failure or a size bounded by the input");
	/* apdu.h rule 5: the value octets of an extended Lc differ from 0x0000 */
	V_ASSERT(!(count > 7 && in[4] == 0 && in[5] == 0 && in[6] == 0) || sz == SIZE_MAX, "apduCmdDec rejects an extended Lc of 0x0000");
	if (sz != SIZE_MAX)
	{
		octet out[CMAX + 1];
		V_TAIL(octet, cmdbuf, sz, sizeof(apdu_cmd_t) + CMAX);
		apdu_cmd_t* cmd = (apdu_cmd_t*)cmdbuf;
		V_ASSERT(apduCmdDec(cmd, in, count) == sz, "apduCmdDec(NULL) == apduCmdDec(buf)");
		V_ASSERT(apduCmdIsValid(cmd), "apduCmdDec produces a valid command");
		V_ASSERT(cmd->cdf_len <= count && sz == sizeof(apdu_cmd_t) + cmd->cdf_len, "apduCmdDec: size == header + cdf_len, cdf inside the input");
		/* apdu.h allows the extended Lc form for short data (rule 4), so the command code is not
		   canonical; what must hold: the re-encoding is not longer, decodes to the same command,
		   and reproduces the input whenever the input already has the encoder's length */
		{
			size_t n2 = apduCmdEnc(0, cmd);
			struct { apdu_cmd_t c; octet cdf[CMAX]; } again;
			V_ASSERT(n2 != SIZE_MAX && n2 <= count, "apduCmdDec accepted => the re-encoding is not longer than the input");
			V_ASSERT(apduCmdEnc(out, cmd) == n2, "apduCmdEnc(NULL) == apduCmdEnc(buf)");
			V_ASSERT(n2 != count || o_eq(out, in, count), "apduCmdDec accepted an input of the encoder's length => apduCmdEnc reproduces it");
			V_ASSERT(apduCmdDec(&again.c, out, n2) == sz && again.c.cla == cmd->cla && again.c.ins == cmd->ins && again.c.p1 == cmd->p1 &&
				again.c.p2 == cmd->p2 && again.c.cdf_len == cmd->cdf_len && again.c.rdf_len == cmd->rdf_len &&
				o_eq(again.c.cdf, cmd->cdf, cmd->cdf_len), "apduCmdDec o apduCmdEnc o apduCmdDec == apduCmdDec");
		}
	}
	V_CANARY("apdu_cmd_dec");
}

void h_apdu_resp_dec(void)
{
	INPUT
	size_t sz = apduRespDec(0, in, count);
	V_ASSERT(sz == SIZE_MAX || (sz >= sizeof(apdu_resp_t) && sz <= sizeof(apdu_resp_t) + count), "apduRespDec: failure or a size bounded by the input");
	if (sz != SIZE_MAX)
	{
		octet out[CMAX + 1];
		V_TAIL(octet, rbuf, sz, sizeof(apdu_resp_t) + CMAX);
		apdu_resp_t* resp = (apdu_resp_t*)rbuf;
		V_ASSERT(apduRespDec(resp, in, count) == sz, "apduRespDec(NULL) == apduRespDec(buf)");
		V_ASSERT(apduRespIsValid(resp), "apduRespDec produces a valid response");
		V_ASSERT(apduRespEnc(out, resp) == count && o_eq(out, in, count), "apduRespDec accepted => apduRespEnc reproduces the input");
	}
	V_CANARY("apdu_resp_dec");
}

/* encoder -> decoder: cdf length CDF concrete (0, 1, 255, 256 cover short/extended Lc), every rdf_len */
#ifndef CDF
#define CDF 1
#endif
void h_apdu_cmd_enc(void)
{
	V_IN_ARR(octet, hdr, 4); V_IN(size_t, rdf_len); V_IN_ARR(octet, cdf0, CDF ? CDF : 1);
	struct { apdu_cmd_t c; octet cdf[CDF ? CDF : 1]; } src, dst;
	apdu_cmd_t* cmd = &src.c;
	octet out[4 + 3 + CDF + 3];
	size_t n, sz, i;
	V_TWEAK(rdf_len, rdf_len = (v_rand() % 4 == 0) ? 65536 : (v_rand() % 4 == 0) ? 256 + v_rand() % 3 - 1 : rdf_len % 65537);
	V_ASSUME(rdf_len <= 65536);
	cmd->cla = hdr[0], cmd->ins = hdr[1], cmd->p1 = hdr[2], cmd->p2 = hdr[3];
	cmd->rdf_len = rdf_len, cmd->cdf_len = CDF;
	for (i = 0; i < CDF; ++i) cmd->cdf[i] = cdf0[i];
	V_ASSERT(apduCmdIsValid(cmd), "a command with cdf_len < 65536 and rdf_len <= 65536 is valid");
	n = apduCmdEnc(0, cmd);
	V_ASSERT(n != SIZE_MAX && n <= sizeof(out), "apduCmdEnc(NULL): length within 4 + 3 + cdf_len + 3");
	V_ASSERT(apduCmdEnc(out, cmd) == n, "apduCmdEnc(NULL) == apduCmdEnc(buf)");
	sz = apduCmdDec(0, out, n);
	V_ASSERT(sz == sizeof(apdu_cmd_t) + CDF, "apduCmdDec accepts what apduCmdEnc produced");
	if (sz == sizeof(apdu_cmd_t) + CDF)
	{
		apduCmdDec(&dst.c, out, n);
		V_ASSERT(dst.c.cla == hdr[0] && dst.c.ins == hdr[1] && dst.c.p1 == hdr[2] && dst.c.p2 == hdr[3] &&
			dst.c.rdf_len == rdf_len && dst.c.cdf_len == CDF && o_eq(dst.c.cdf, cdf0, CDF), "apduCmdDec inverts apduCmdEnc");
	}
	V_CANARY("apdu_cmd_enc");
}
