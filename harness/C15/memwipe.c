/* C15 group memwipe: contract of memWipe itself -- every octet of [buf, buf + count) is
   overwritten and what is written does not depend on the previous content.
   mem.c is linked twice (the second copy with -DmemWipe=memWipe_B), which gives two instances
   of memWipe with separate static counters, both starting at 0.  The SAME buffer (same address,
   same alignment) is filled with x, wiped by instance A, refilled with an independent y and
   wiped by instance B: the two results must be equal octet for octet.  A wipe that skips an
   octet leaves x[i] in one run and y[i] in the other. */
#include "verif.h"
#include "bee2/core/mem.h"
extern void memWipe_B(void* buf, size_t count);

#ifndef CNT
#define CNT 40
#endif
void h_memwipe(void)
{
	V_IN_ARR(octet, x, CNT); V_IN_ARR(octet, y, CNT);
	static word aligned[(CNT + 32) / sizeof(word) + 2];
	octet* buf = (octet*)aligned;      /* word-aligned, as the page-rounded blobs are */
	octet ra[CNT + 16];
	size_t i, off;
	int ok = 1, guard = 1;
	for (off = 0; off <= 8; off += 8)          /* aligned start and a start 8 octets in */
	{
		for (i = 0; i < CNT + 8; ++i) buf[off + i] = (i < CNT) ? x[i] : 0x5A;
		memWipe(buf + off, CNT);
		for (i = 0; i < CNT + 8; ++i) ra[i] = buf[off + i];
		for (i = 0; i < CNT + 8; ++i) buf[off + i] = (i < CNT) ? y[i] : 0x5A;
		memWipe_B(buf + off, CNT);
		for (i = 0; i < CNT; ++i) ok &= (ra[i] == buf[off + i]);
		for (i = CNT; i < CNT + 8; ++i) guard &= (ra[i] == 0x5A && buf[off + i] == 0x5A);
	}
	V_ASSERT(ok, "memWipe overwrites every octet of [buf, buf + count) independently of its previous content");
	V_ASSERT(guard, "memWipe writes nothing beyond count");
	V_CANARY("memwipe");
}
