/*
 * verif.h -- harness library shared by every obligation group.
 *
 * A harness is one C function.  The same text is compiled twice:
 *   - by goto-cc (-DVERIF_CBMC): V_IN objects are nondeterministic, V_ASSUME is
 *     __CPROVER_assume, V_ASSERT is a proof obligation;
 *   - by gcc -fsanitize=address,undefined (-DVERIF_NATIVE): V_IN objects are read
 *     from a replay file (name -> hex octets) or drawn from a seeded generator,
 *     V_ASSUME skips the sample, V_ASSERT reports the failing obligation.
 * The native build is the replay driver: a CBMC counterexample is the list of the
 * V_IN objects with their values.
 */
#ifndef VERIF_H
#define VERIF_H

#include <stddef.h>
#include <stdint.h>
#include <string.h>

#if !defined(VERIF_CBMC) && !defined(VERIF_NATIVE)
#error "define VERIF_CBMC or VERIF_NATIVE"
#endif

#ifdef VERIF_CBMC

#define V_IN(type, name) type name
#define V_IN_ARR(type, name, n) type name[n]
/* caller-visible buffer of exactly n octets: one octet of overrun is a failed obligation */
#define V_BUF(type, name, n) type* name = (type*)malloc((n) * sizeof(type)); \
	__CPROVER_assume(name != 0)
/* heap object of exactly n octets (n may be symbolic); contents are set by the harness */
#define V_ALLOC(type, name, n) type* name = (type*)malloc(n); __CPROVER_assume(name != 0)
/* buffer of exactly n elements (n symbolic, n <= max) that is only accessed forwards from
   its start: right-aligned in a fixed array so that name + n is the end of the object
   (a symbolic-size heap object makes the queries an order of magnitude larger) */
#define V_TAIL(type, name, n, max) type name##_o[(max) ? (max) : 1]; type* name; \
	__CPROVER_assume((n) <= (max)); name = name##_o + ((max) - (n))
#define V_ASSUME(c) __CPROVER_assume(c)
#define V_ASSERT(c, msg) __CPROVER_assert(c, msg)
#ifdef VERIF_NO_CANARY
#define V_CANARY(msg) ((void)0)
#else
/* reachability canary: this obligation MUST fail, otherwise the requires are vacuous */
#define V_CANARY(msg) __CPROVER_assert(0, "canary " msg)
#endif
#define V_NATIVE_ONLY(...)
#define V_TWEAK(name, ...)
#define V_CBMC_ONLY(...) __VA_ARGS__
void* malloc(size_t);
void free(void*);

#else /* VERIF_NATIVE */

#include <stdio.h>
#include <stdlib.h>
extern void v_read(const char* name, void* p, size_t n);
extern void v_skip(const char* cond);
extern void v_fail(const char* msg, const char* file, int line);
extern void v_canary(const char* msg);
extern void* v_buf(const char* name, size_t n);
#define V_IN(type, name) type name; v_read(#name, &name, sizeof(name))
#define V_IN_ARR(type, name, n) type name[n]; v_read(#name, name, sizeof(name))
#define V_BUF(type, name, n) type* name = (type*)v_buf(#name, (n) * sizeof(type))
extern void* v_alloc(size_t n);
#define V_ALLOC(type, name, n) type* name = (type*)v_alloc(n)
#define V_TAIL(type, name, n, max) type* name; if ((n) > (max)) v_skip("V_TAIL bound"); name = (type*)v_alloc((n) * sizeof(type))
#define V_ASSUME(c) do { if (!(c)) v_skip(#c); } while (0)
#define V_ASSERT(c, msg) do { if (!(c)) v_fail(msg, __FILE__, __LINE__); } while (0)
#define V_CANARY(msg) v_canary(msg)
#define V_NATIVE_ONLY(...) __VA_ARGS__
/* search-time steering of a generated input towards the harness's assumptions or towards
   structured values (multiples of the modulus, ...); skipped when replaying */
extern int v_replaying(void);
extern void v_update(const char* name, const void* p, size_t n);
extern unsigned long long v_rand(void);
#define V_TWEAK(name, ...) do { if (!v_replaying()) { __VA_ARGS__; v_update(#name, &name, sizeof(name)); } } while (0)
#define V_CBMC_ONLY(...)

#endif

#endif /* VERIF_H */
