"""C02: bign -- flow contracts of the high-level functions over the contracts of the layers below."""
LEVEL = "other"
LEVEL_TEXT = ("Flow contracts: the real bodies of the high-level bign functions are checked against the contracts of the layers below them "
              "(curve arithmetic, field import/export, belt-hash, modular reduction, generator); the algebra inside those layers is assumed.")
from engine import G

ENV = ["src/crypto/bign/bign_sign.c", "src/crypto/bign/bign_misc.c", "src/crypto/bign/bign_keyt.c", "src/crypto/bign/bign_ibs.c",
       "src/crypto/bign/bign_lcl.c", "src/math/ww.c", "src/math/zz/zz_add.c", "src/math/zz/zz_mul.c", "src/crypto/belt/belt_compr.c",
       "src/math/ec.c", "src/math/ecp.c", "src/crypto/belt/belt_hash.c", "src/core/mem.c", "src/core/u64.c", "src/core/u32.c", "src/core/util.c"]
STRIP = {"bign/bign_lcl.c": ["bignStart", "bignStart_keep"], "zz/zz_mul.c": ["zzMul", "zzMod"], "math/ec.c": ["!_deep$|^ecNAFWidth$"],
         "math/ecp.c": ["!^ecpIsOnA_deep$"], "belt/belt_compr.c": ["!_deep$"], "belt/belt_hash.c": ["beltHashStart", "beltHashStepH", "beltHashStepG", "beltHashStepG2", "beltHashStepV", "beltHashStepV2"]}
GROUPS = []
for l in (128, 192, 256):
    for f in ("sign", "verify"):
        GROUPS.append(G("flow.%s.l%d" % (f, l), "harness/C02/flow.c", "h_" + f, ENV, defs=["L=%d" % l], stubs=["stubs/bign_env.c"], strip=STRIP,
                        level="B", bound="security level l = %d (operand size fixed, contents symbolic); callees below the function replaced by their contracts" % l,
                        unwind=70, native=False, timeout=900, fn=["bign" + f.capitalize()], tier="quick"))
ASSUMPTIONS = []
TRUSTED = []
NOT_COVERED = []
