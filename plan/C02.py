"""C02: bign -- flow contracts of the high-level functions over the contracts of the layers below."""
LEVEL = "other"
LEVEL_TEXT = ("Flow contracts: the real bodies of the high-level bign functions are checked against the contracts of the layers below them "
              "(curve arithmetic, field import/export, belt-hash, modular reduction, generator); the algebra inside those layers is assumed.")
from engine import G

ENV = ["src/crypto/bign/bign_sign.c", "src/crypto/bign/bign_misc.c", "src/crypto/bign/bign_keyt.c", "src/crypto/bign/bign_ibs.c",
       "src/crypto/bign/bign_lcl.c", "src/math/ww.c", "src/math/zz/zz_add.c", "src/math/zz/zz_mul.c", "src/crypto/belt/belt_compr.c", "src/crypto/belt/belt_wbl.c", "src/math/qr.c",
       "src/math/ec.c", "src/math/ecp.c", "src/crypto/belt/belt_hash.c", "src/core/mem.c", "src/core/u64.c", "src/core/u32.c", "src/core/util.c"]
STRIP = {"bign/bign_lcl.c": ["bignStart", "bignStart_keep"], "zz/zz_mul.c": ["zzMul", "zzMod"], "math/ec.c": ["!_deep$|^ecNAFWidth$"],
         "math/ecp.c": ["!^ecpIsOnA_deep$"], "belt/belt_compr.c": ["!_deep$"], "belt/belt_wbl.c": ["!_keep$"], "math/qr.c": ["!_deep$|^qrCalcSlideWidth$"], "belt/belt_hash.c": ["beltHash_keep", "beltHashStart", "beltHashStepH", "beltHashStepG", "beltHashStepG2", "beltHashStepV", "beltHashStepV2"]}
GROUPS = []
FN = dict(sign="bignSign", verify="bignVerify", keypairgen="bignKeypairGen", keypairval="bignKeypairVal", pubkeyval="bignPubkeyVal", pubkeycalc="bignPubkeyCalc", dh="bignDH", sign2="bignSign2", idsign2="bignIdSign2", idsign="bignIdSign", idextract="bignIdExtract", keywrap="bignKeyWrap", keyunwrap="bignKeyUnwrap", idverify="bignIdVerify")
for l in (128, 192, 256):
    for f in ("sign", "verify", "keypairgen", "keypairval", "pubkeyval", "pubkeycalc", "dh", "sign2", "idsign2", "idsign", "idextract", "keywrap", "keyunwrap", "idverify"):
        slow = (f == "dh" and l == 256) or (f in ("sign2", "idsign2", "keywrap", "keyunwrap", "idsign", "idextract", "idverify") and l != 128)
        for tv in ((0, 1) if f in ("sign2", "idsign2", "keywrap", "keyunwrap") else (None,)):
            GROUPS.append(G("flow.%s.l%d%s" % (f, l, "" if tv is None else ".t%d" % tv), "harness/C02/flow.c", "h_" + f, ENV,
                            defs=["L=%d" % l] + ([] if tv is None else ["HAVE_T=%d" % tv]), stubs=["stubs/bign_env.c"], strip=STRIP,
                            level="B", bound="security level l = %d (operand size fixed, contents symbolic); callees below the function replaced by their contracts%s"
                                  % (l, "; at most three belt-wbl rounds; additional data t %s" % ("present" if tv else "absent") if tv is not None else ""),
                            unwind=max(70, l // 2 + 8), unwindset=["bignSign2.0:4", "bignIdSign2.0:4"], native=False, timeout=1800, fn=[FN[f]],
                            tier="thorough" if slow else "quick", required=not slow))
ALLSRC = ["src/crypto/bign/bign_sign.c", "src/crypto/bign/bign_misc.c", "src/crypto/bign/bign_keyt.c", "src/crypto/bign/bign_ibs.c",
          "src/crypto/bign/bign_lcl.c", "src/crypto/bign/bign_params.c"]
GROUPS.append(G("roundtrip.search", "harness/C02/roundtrip.c", "h_roundtrip", ALLSRC, level="N", backend="native", search=400, timeout=1800,
                fn=["bignSign", "bignSign2", "bignVerify", "bignKeypairGen", "bignKeypairVal", "bignPubkeyVal", "bignPubkeyCalc", "bignDH",
                    "bignKeyWrap", "bignKeyUnwrap", "bignIdExtract", "bignIdSign", "bignIdSign2", "bignIdVerify"],
                note="native ASan/UBSan search over the real stack on the three standard curves: keys, hashes (0, q - 1, q, 2^2l - 1, > q), "
                     "generator tapes (first block >= q), single-bit alterations; NOT proof"))
ASSUMPTIONS = ["assumed contracts of the replaced callees (stubs/bign_env.c): bignStart lays out curve / field descriptions with order = params->q and modulus = params->p; "
               "qrFrom / qrTo, ecMulA, ecAddMulA, ecpIsOnA return arbitrary values (success flags nondeterministic); zzRandNZMod ensures 0 < k < mod on success; "
               "zzMod ensures r < mod; zzAddMod / zzSubMod require a, b < mod and ensure c < mod (their values are decided under C05); belt-hash is a transcript; "
               "blobCreate may fail; oidFromDER returns an arbitrary length or SIZE_MAX",
               "the state is one typed object of fixed capacity; its declared size is what the function requested, and each callee stack must fit below it (FITS); "
               "accesses of the function's own local variables beyond the declared size but inside the capacity are not flagged here (C07 exactblob.testsuite covers them natively)",
               "security level / operand size concrete per group; deterministic-signing model: at most three belt-wbl rounds"]
TRUSTED = ["stubs/bign_env.c", "harness/ref.h"]
NOT_COVERED = ["the algebra below the stubs: group law, field arithmetic, belt-hash, belt-wbl / KWP (C05, C01 and C06 territory)",
               "bignKeyWrap / bignKeyUnwrap: key length 24 only"]
