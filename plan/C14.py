from engine import G
import importlib.util, os
_spec = importlib.util.spec_from_file_location("plan_C05_for_C14", os.path.join(os.path.dirname(__file__), "C05.py"))
_c05 = importlib.util.module_from_spec(_spec); _spec.loader.exec_module(_c05)

LEVEL = "other"
LEVEL_TEXT = ("Obligation 1 (SAFE == FAST): both editions of every pair are linked into one binary and run on equal symbolic inputs "
              "(B(N): concrete lengths, symbolic values; word-level pairs complete). Obligation 2 (regularity): goto-instrument "
              "--branch hook + self-composition: two runs of the SAFE edition on independent symbolic values with equal lengths must "
              "produce identical branch-decision sequences at the level of the C semantics (goto program), NDEBUG build. "
              "A negative control (FAST wwCmp must fail) guards the hook on every run.")
MATH = ["src/math/ww.c", "src/math/zz/zz_add.c", "src/math/zz/zz_mod.c", "src/math/zz/zz_etc.c", "src/core/mem.c",
        "src/core/hex.c", "src/core/word.c", "src/core/u16.c", "src/core/u32.c", "src/core/u64.c"]
COV = ["-fsanitize-coverage=trace-pc"]
GROUPS = []
for n in (1, 2, 4):
    GROUPS.append(G("ct_cmp.n%d" % n, "harness/C14/ct_math.c", "h_ct_cmp", MATH, defs=["N=%d" % n], level="B",
                    bound="operand length %d words / %d octets; values fully symbolic" % (n, 8 * n + 3), ndebug=True,
                    branch_hook="v_hook", unwind=8 * n + 8, spec_unwind=162, split=True, search=3000, native_cflags=COV,
                    extra=["--no-standard-checks"], checks=[],
                    fn=["wwEq", "wwCmp", "wwCmp2", "wwCmpW", "wwIsZero", "wwIsW", "wwIsRepW", "memEq", "memCmp", "memCmpRev",
                        "memIsZero", "memIsRep", "zzIsSumEq", "zzIsSumWEq", "u16CTZ", "u16CLZ", "u32CTZ", "u32CLZ", "u64CTZ", "u64CLZ"]))
    GROUPS.append(G("ct_mod.n%d" % n, "harness/C14/ct_math.c", "h_ct_mod", MATH, defs=["N=%d" % n], level="B",
                    bound="operand length %d words; values fully symbolic" % n, ndebug=True,
                    branch_hook="v_hook", unwind=n + 4, spec_unwind=162, split=True, search=3000, native_cflags=COV,
                    extra=["--no-standard-checks"], checks=[],
                    fn=["zzAddMod", "zzSubMod", "zzAddWMod", "zzSubWMod", "zzNegMod", "zzDoubleMod", "zzHalfMod"]))
BELT = ["src/crypto/belt/belt_%s.c" % m for m in ("mac", "hash", "dwp", "che", "ctr", "kwp", "wbl", "lcl", "compr", "block")] + \
       ["src/math/pp/pp_mul.c", "src/math/pp/pp_red.c", "src/math/pp/pp_etc.c", "src/math/ww.c", "src/core/mem.c", "src/core/util.c",
        "src/core/blob.c", "src/core/u32.c", "src/core/u64.c", "src/core/u16.c", "src/core/word.c"]
UF = {"crypto/belt/belt_block.c": ["beltBlockEncr", "beltBlockEncr2", "beltBlockEncr3", "beltBlockDecr", "beltBlockDecr2", "beltBlockDecr3"],
      "crypto/belt/belt_lcl.c": ["beltPolyMul"]}
for ent, fns in (("h_ct_stepv", ["beltMACStepV", "beltMACStepV2", "beltHashStepV", "beltHashStepV2"]),
                 ("h_ct_aead", ["beltDWPStepV", "beltCHEStepV"]), ("h_ct_kwp", ["beltKWPUnwrap"]), ("h_ct_kwp0", ["beltKWPUnwrap"])):
    kwp = ent.startswith("h_ct_kwp")
    GROUPS.append(G("ct_belt." + ent[5:], "harness/C14/ct_belt.c", ent, BELT, stubs=["stubs/belt_uf.c", "stubs/mem_ghost.c"],
                    strip=dict(UF, **{"core/mem.c": ["memAlloc", "memFree", "memWipe"]}), level="B", defs=["CT_MAX=320"],
                    bound="data length 21 octets / token 32 octets; values fully symbolic", ndebug=True, branch_hook="v_hook",
                    unwind=70, spec_unwind=322, split=True, search=2000, native_cflags=COV, extra=["--no-standard-checks"], checks=[],
                    timeout=1500, fn=fns, tier="quick" if kwp else "thorough", required=kwp, mem_gb=24,
                    note="" if kwp else "attempted: the CBMC query exhausts 8 GB (measured)"))
    GROUPS.append(G("ct_belt." + ent[5:] + ".search", "harness/C14/ct_belt.c", ent, BELT, level="N", backend="native", search=60000,
                    native_cflags=COV, ndebug=True, fn=fns,
                    note="native stand-in: basic-block traces (gcc -O1, -fsanitize-coverage=trace-pc) of two runs on independent random "
                         "secrets must be identical; NOT proof"))
GROUPS.append(G("ct_negative_control", "harness/C14/ct_math.c", "h_ct_cmp", MATH, defs=["N=2", "NEG=1"], level="S", ndebug=True,
                branch_hook="v_hook", unwind=24, spec_unwind=162, neg_control=True, native=False,
                extra=["--no-standard-checks"], checks=[], note="FAST wwCmp must fail the regularity obligation"))
# obligation 1: SAFE == FAST value equivalence: the C05 groups that run both editions
for g in _c05.GROUPS:
    if g["name"].startswith(("ww_basic", "mem.cnt", "zz_mod", "zz_add.n", "zz_red", "uxx.w")) and "alias" not in g["name"].replace("alias0", ""):
        g2 = dict(g); g2["name"] = "eq." + g["name"]
        GROUPS.append(g2)
TRUSTED = ["goto-instrument --branch instrumentation (every conditional GOTO of the goto program gets a hook call)"]
ASSUMPTIONS = ["C semantics only: a compiler may turn branch-free C into branching machine code (native replay observes gcc -O1 code via -fsanitize-coverage=trace-pc, on replayed inputs only)",
               "table look-ups and variable-latency instructions are outside the model (safe.h excludes them as well)"]
NOT_COVERED = ["the optimised (-O2/-O3) machine code", "SIMD bash-f variants"]
