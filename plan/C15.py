from engine import G
import importlib.util, os
_spec = importlib.util.spec_from_file_location("plan_C09_for_C15", os.path.join(os.path.dirname(__file__), "C09.py"))
_c09 = importlib.util.module_from_spec(_spec); _spec.loader.exec_module(_c09)
LEVEL = "other"
LEVEL_TEXT = ("The obligation 'the block handed to memFree was wiped over its whole size by the preceding memWipe' lives in the ghost-instrumented "
              "allocator contract (stubs/mem_ghost.c) and is generated at every deallocation reachable from each high-level belt function on every "
              "exit path: success, each argument-error return, and allocation failure at any ordinal (nondeterministic under CBMC).  blob.c "
              "(blobCreate / blobClose) runs with its real body on top of these contracts.")
GROUPS = [dict(g) for g in _c09.GROUPS]
TRUSTED = list(_c09.TRUSTED)
ASSUMPTIONS = ["copies of secrets on the C stack or in registers, and compiler dead-store elimination (volatile wipe), are outside the model"]
NOT_COVERED = ["bign / bign96 / bake / BAUTH / bels / botp / bpki / brng high-level functions; rng.c; blobResize (realloc may release the old block unwiped)"]
