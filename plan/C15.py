from engine import G
import importlib.util, os
_spec = importlib.util.spec_from_file_location("plan_C09_for_C15", os.path.join(os.path.dirname(__file__), "C09.py"))
_c09 = importlib.util.module_from_spec(_spec); _spec.loader.exec_module(_c09)
LEVEL = "other"
LEVEL_TEXT = ("The obligation 'the block handed to memFree was wiped over its whole size by the preceding memWipe' lives in the ghost-instrumented "
              "allocator contract (stubs/mem_ghost.c) and is generated at every deallocation reachable from each high-level belt function on every "
              "exit path: success, each argument-error return, and allocation failure at any ordinal (nondeterministic under CBMC).  blob.c "
              "(blobCreate / blobClose) runs with its real body on top of these contracts.")
GROUPS = [dict(g) for g in _c09.GROUPS]
MW = ["src/core/mem.c", "src/core/util.c", "src/core/word.c", "src/core/u64.c", "src/core/u32.c", "src/core/u16.c"]
for cnt in (1, 7, 8, 40, 64, 129):
    GROUPS.append(G("memwipe.cnt%d" % cnt, "harness/C15/memwipe.c", "h_memwipe", MW, defs=["CNT=%d" % cnt], level="B",
                    bound="count = %d octets, both word-aligned and odd-word starts; previous contents symbolic" % cnt,
                    extra_units=[("src/core/mem.c", ["memWipe=memWipe_B"])], stubs=["stubs/memchr.c"], unwindset=["memchr.0:%d" % (cnt + 2)], unwind=cnt + 12, spec_unwind=cnt + 12, search=3000, split=True,
                    timeout=900, fn=["memWipe"], note="the wipe contract the ghost allocator groups rely on: two instances of the real memWipe on the same buffer"))
TRUSTED = list(_c09.TRUSTED)
ASSUMPTIONS = ["copies of secrets on the C stack or in registers, and compiler dead-store elimination (volatile wipe), are outside the model"]
NOT_COVERED = ["bign / bign96 / bake / BAUTH / bels / botp / bpki / brng high-level functions; rng.c; blobResize (realloc may release the old block unwiped)"]
