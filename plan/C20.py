from engine import G

LEVEL = "proof"
LEVEL_TEXT = ("btokPwdTransition is loop-free over a 5+3-bit state: its one-step contract is decided "
              "for every state and event encoding, and the history rules are an inductive invariant "
              "of an unbounded event loop (base + step for all states), so every finite history is covered.")
R1 = ("src/crypto/btok/btok_pwd.c", r"--state->pin;",
      "state->pin = (btok_pin_state)((int)state->pin - 1);", 2)
SRC = ["src/crypto/btok/btok_pwd.c", "src/core/mem.c"]
FN = ["btokPwdTransition"]

GROUPS = [
    G("step", "harness/C20/step.c", "h_step", SRC, rewrite=[R1], fn=FN, level="P",
      enforce=[("btokPwdTransition", "c_btokPwdTransition")], search=20000,
      note="one-step contract (frame + single-step rules) for all 16x4 states x all int events"),
    G("history_inductive", "harness/C20/history.c", "h_history", SRC, rewrite=[R1], fn=FN,
      level="P", native=False, inline_loops=True, note="loop invariant base/step over the real transition function; unbounded history"),
    G("history_bounded", "harness/C20/history_bounded.c", "h_history_bounded", SRC, rewrite=[R1],
      fn=FN, level="B", bound="event paths of length <= 12 from all 16 persistent PIN states",
      unwind=13, search=200000,
      note="bounded replayable twin of history_inductive (yields concrete event paths)"),
]
TRUSTED = ["rewrite rule R1 (pre-decrement of an enum bit-field -> equivalent assignment; CBMC 6.11 front-end crash)"]
ASSUMPTIONS = ["the monitor's reading of the rules: 'consecutive wrong PINs' are accepted pin_bad events with no accepted pin_ok "
               "and no PUK-legitimised reset in between; 'only on a correct PUK' admits the event puk_ok or PUK status in force"]
NOT_COVERED = []
