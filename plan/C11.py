from engine import G
LEVEL = "other"
LEVEL_TEXT = ("Relational contracts: the real high-level function on overlapping buffers inside one arena (every relative placement of dest "
              "against src: offsets symbolic) against the same function on disjoint copies; lengths concrete (B(N)), contents/key/IV symbolic; "
              "block function uninterpreted so both runs share it.  memMove/memJoin: groups mem_join.* / mem_move.* (all placements, counts <= 3/5).")
import importlib.util, os
_spec = importlib.util.spec_from_file_location("plan_C05_for_C11", os.path.join(os.path.dirname(__file__), "C05.py"))
_c05 = importlib.util.module_from_spec(_spec); _spec.loader.exec_module(_c05)
BELT = ["src/crypto/belt/belt_%s.c" % m for m in ("ecb", "cbc", "cfb", "ctr", "kwp", "wbl", "sde", "dwp", "che", "lcl", "block")] + \
       ["src/core/der.c", "src/core/mem.c", "src/core/util.c", "src/core/blob.c", "src/core/str.c", "src/core/oid.c", "src/core/u32.c", "src/core/u64.c", "src/core/u16.c", "src/core/word.c"]
UF = {"crypto/belt/belt_block.c": ["beltBlockEncr", "beltBlockEncr2", "beltBlockEncr3", "beltBlockDecr", "beltBlockDecr2", "beltBlockDecr3"]}
GROUPS = [g for g in _c05.GROUPS if g["name"].startswith(("mem_join", "mem_move"))]
FN = {"ecb_e": "beltECBEncr", "ecb_d": "beltECBDecr", "cbc_e": "beltCBCEncr", "cbc_d": "beltCBCDecr", "cfb_e": "beltCFBEncr", "cfb_d": "beltCFBDecr",
      "ctr": "beltCTR", "kwp_wrap": "beltKWPWrap", "misc": "beltKeyExpand, derEnc"}
for f in FN:
    for ln in ((20, 33) if f != "misc" else (20,)):
        GROUPS.append(G("overlap.%s.len%d.search" % (f, ln), "harness/C11/belt_overlap.c", "h_" + f, BELT, defs=["LEN=%d" % ln], level="N",
                        backend="native", search=150000, fn=[FN[f]], note="native run of the relational harness (random placements and contents); NOT proof"))
# CBMC forms of these groups (symbolic placements, uninterpreted cipher) were measured: cbc_e 64 s, ctr/kwp no answer in 400 s
# under load, and blobClose's wipe of the page-rounded blob needs ~1000 unwindings; they are not registered.
GROUPS.append(G("overlap.aux.search", "harness/C11/belt_overlap.c", "h_aux", BELT, defs=["LEN=20"], level="N", backend="native", search=150000,
                fn=["beltSDEEncr", "beltSDEDecr", "beltKWPUnwrap", "derTUINTEnc", "beltKeyExpand", "beltDWPWrap", "beltCHEWrap"],
                note="native: IV / header / value placed inside the output region; NOT proof"))
TRUSTED = ["stubs/belt_uf.c: uninterpreted block function"]
ASSUMPTIONS = ["keys are placed outside the output region; IV / header / value inside it only in overlap.aux"]
NOT_COVERED = ["DWP/CHE/BDE/SDE/MAC/Hash/KRP, bash and brng high-level functions"]
