from engine import G
LEVEL = "other"
LEVEL_TEXT = ("Partial. Pc (complete) for the counter and formatting helpers of brng and botp against the standards' formulas; "
              "bash-f, the sponge/automaton buffering and the generators' recurrences are listed per group or under not_covered.")
CORE = ["src/core/mem.c", "src/core/util.c", "src/core/dec.c", "src/core/str.c", "src/core/tm.c", "src/core/blob.c", "src/core/word.c",
        "src/core/u16.c", "src/core/u32.c", "src/core/u64.c"]
GROUPS = [
    G("brng_inc", "harness/C03/counters.c", "h_brng_inc", CORE, level="Pc", unwind=40, spec_unwind=40, search=300000, split=True,
      fn=["brngBlockInc", "brngBlockNeg", "brngBlockXor2"], note="all 2^256 counter values, object of exactly 32 octets"),
]
for ml in (20, 32, 64):
    GROUPS.append(G("botp.mac%d" % ml, "harness/C03/counters.c", "h_botp", CORE, defs=["MACLEN=%d" % ml], level="Pc", unwind=70,
                    spec_unwind=70, search=300000, split=True, fn=["botpCtrNext", "botpTimeToCtr"],
                    note="all counters / times; MAC length %d" % ml) if ml == 32 else None)
    for dg in (4, 5, 6, 7, 8, 9):
        GROUPS.append(G("botp_dt.mac%d.d%d" % (ml, dg), "harness/C03/counters.c", "h_botp_dt", CORE,
                        defs=["MACLEN=%d" % ml, "DIGIT=%d" % dg], level="Pc", unwind=70, spec_unwind=70, search=300000,
                        backend="portfolio", extra=["--no-standard-checks"], ndebug=True, timeout=600,
                        tier="thorough", required=False,
                        fn=["botpDT", "decFromU32"], note="attempted: 32-bit remainder chains; measured no answer in 200 s on SAT, cvc5, z3"))
    for dg in (4, 5, 6, 7, 8, 9):
        GROUPS.append(G("botp_dt.mac%d.d%d.search" % (ml, dg), "harness/C03/counters.c", "h_botp_dt", CORE, defs=["MACLEN=%d" % ml, "DIGIT=%d" % dg],
                        level="N", backend="native", search=200000, fn=["botpDT", "decFromU32"],
                        note="native search stand-in for the dynamic-truncation value; NOT proof"))
    GROUPS.append(G("botp_dt.mac%d.safety" % ml, "harness/C03/counters.c", "h_botp_dt", CORE, defs=["MACLEN=%d" % ml, "DIGIT=9", "NOVALUE"],
                    level="Pc", unwind=70, spec_unwind=70, native=False, fn=["botpDT", "decFromU32"],
                    note="memory safety and termination of botpDT for all MAC values (exact-size otp and mac objects)"))
GROUPS = [g for g in GROUPS if g]
BF = ["src/core/mem.c", "src/core/util.c", "src/core/u64.c", "src/core/word.c", "src/core/u32.c", "src/core/u16.c"]
GROUPS += [
    G("bash_f6", "harness/C03/bash_f.c", "h_bash_f6", BF, level="Pc", backend="portfolio", extra=["--no-standard-checks"], ndebug=True,
      unwind=30, search=20000, split=True, timeout=900, fn=["bashR (macro)", "bashS (macro)", "P0..P5", "c1..c24"],
      note="6 rounds (one cycle of the in-register permutation) + all 24 constants; all states"),
    G("bash_f.search", "harness/C03/bash_f.c", "h_bash_f", BF, level="N", backend="native", search=200000, fn=["bashF0"],
      note="native differential search of the full 24 rounds against the spec; NOT proof (the proof is bash_f24 in the thorough tier)"),
    G("bash_f_octets", "harness/C03/bash_f.c", "h_bash_f_octets", BF, level="Pc", backend="portfolio", extra=["--no-standard-checks"],
      unwind=200, search=20000, timeout=1500, tier="thorough", required=False, fn=["bashF"],
      note="octet interface == word interface (little-endian); z3 ~14 min"),
    G("bash_f_octets.search", "harness/C03/bash_f.c", "h_bash_f_octets", BF, level="N", backend="native", search=100000, fn=["bashF"],
      note="native stand-in for the octet interface; NOT proof"),
    G("bash_f24", "harness/C03/bash_f.c", "h_bash_f", BF, level="P", backend="portfolio", extra=["--no-standard-checks"], ndebug=True,
      unwind=30, search=20000, timeout=2400, tier="thorough", fn=["bashF0"],
      note="the full permutation == STB 34.101.77 bash-f for all 2^1536 states (cvc5 ~5 min)"),
]
BR = ["src/crypto/brng.c", "src/crypto/belt/belt_hash.c", "src/crypto/belt/belt_compr.c", "src/crypto/belt/belt_block.c", "src/crypto/belt/belt_lcl.c",
      "src/crypto/belt/belt_hmac.c", "src/core/mem.c", "src/core/blob.c", "src/core/u32.c", "src/core/u64.c", "src/core/u16.c", "src/core/word.c"]
GROUPS.append(G("brng_ctr.search", "harness/C03/brng.c", "h_brng_ctr", BR, level="N", backend="native", search=40000,
                fn=["brngCTRStart", "brngCTRStepR", "brngCTRStepG", "brngCTRRand"],
                note="native: brng-ctr against its recurrence over the library's own beltHash, IVs wrapping a word / all 256 bits; NOT proof"))
BASHSRC = ["src/crypto/bash/bash_f.c", "src/crypto/bash/bash_hash.c", "src/crypto/bash/bash_prg.c", "src/core/mem.c", "src/core/blob.c", "src/core/util.c", "src/core/u64.c"]
GROUPS += [
    G("bash_hash.spec.search", "harness/C03/bash_spec.c", "h_bash_hash_spec", BASHSRC, level="N", backend="native", search=60000,
      fn=["bashHashStart", "bashHashStepH", "bashHashStepG", "bashHashStepV", "bashHash"],
      note="all 16 levels x lengths 0..420 (block boundaries weighted) x three fragments against an octet-wise sponge reference over bashF; NOT proof"),
    G("bash_prg.spec.search", "harness/C03/bash_spec.c", "h_bash_prg_spec", BASHSRC, level="N", backend="native", search=60000,
      fn=["bashPrgStart", "bashPrgRestart", "bashPrgAbsorbStep", "bashPrgSqueezeStep", "bashPrgEncrStep", "bashPrgDecrStep", "bashPrgRatchet"],
      note="command histories (start, restart with/without key, absorb, squeeze, encr, decr, ratchet; two-fragment steps) against an octet-wise reference automaton over bashF; NOT proof"),
]
TRUSTED = []
ASSUMPTIONS = ["little-endian target"]
NOT_COVERED = ["bash_f32.c and the SSE2/AVX2/AVX-512/NEON variants of bash-f", "bash hash / prg buffering and padding",
               "brngHMACStepR recurrence; brngCTRStepR only natively", "OCRA suite-string parsing, TOTP wall clock"]
