from engine import G
LEVEL = "other"
LEVEL_TEXT = ("Partial. Pc (complete) for the counter and formatting helpers of brng and botp against the standards' formulas; "
              "bash-f, the sponge/automaton buffering and the generators' recurrences are listed per group or under not_covered.")
CORE = ["src/core/mem.c", "src/core/util.c", "src/core/dec.c", "src/core/str.c", "src/core/tm.c", "src/core/blob.c", "src/core/word.c",
        "src/core/u16.c", "src/core/u32.c", "src/core/u64.c"]
GROUPS = [
    G("brng_inc", "harness/C03/counters.c", "h_brng_inc", CORE, level="Pc", unwind=40, spec_unwind=40, search=300000, split=True,
      fn=["brngBlockInc", "brngBlockNeg", "brngBlockXor2"], note="all 2^256 counter values, object of exactly 32 octets"),
]
for ml in (20, 32, 64):
    GROUPS.append(G("botp.mac%d" % ml, "harness/C03/counters.c", "h_botp", CORE, defs=["MACLEN=%d" % ml], level="Pc", unwind=70,
                    spec_unwind=70, search=300000, split=True, fn=["botpCtrNext", "botpTimeToCtr"],
                    note="all counters / times; MAC length %d" % ml) if ml == 32 else None)
    for dg in (4, 5, 6, 7, 8, 9):
        GROUPS.append(G("botp_dt.mac%d.d%d" % (ml, dg), "harness/C03/counters.c", "h_botp_dt", CORE,
                        defs=["MACLEN=%d" % ml, "DIGIT=%d" % dg], level="Pc", unwind=70, spec_unwind=70, search=300000,
                        backend="portfolio", extra=["--no-standard-checks"], ndebug=True, timeout=600,
                        tier="thorough", required=False,
                        fn=["botpDT", "decFromU32"], note="attempted: 32-bit remainder chains; measured no answer in 200 s on SAT, cvc5, z3"))
    GROUPS.append(G("botp_dt.mac%d.search" % ml, "harness/C03/counters.c", "h_botp_dt", CORE, defs=["MACLEN=%d" % ml, "DIGIT=%d" % (4 + ml % 6)],
                    level="N", backend="native", search=1000000, fn=["botpDT", "decFromU32"],
                    note="native search stand-in for the dynamic-truncation value; NOT proof"))
    GROUPS.append(G("botp_dt.mac%d.safety" % ml, "harness/C03/counters.c", "h_botp_dt", CORE, defs=["MACLEN=%d" % ml, "DIGIT=9", "NOVALUE"],
                    level="Pc", unwind=70, spec_unwind=70, native=False, fn=["botpDT", "decFromU32"],
                    note="memory safety and termination of botpDT for all MAC values (exact-size otp and mac objects)"))
GROUPS = [g for g in GROUPS if g]
TRUSTED = []
ASSUMPTIONS = ["little-endian target"]
NOT_COVERED = ["bash-f against STB 34.101.77 (planned: cvc5 on the 24-round spec)", "bash hash / prg buffering and padding",
               "brngCTRStepR / brngHMACStepR recurrences over uninterpreted hash", "OCRA suite-string parsing, TOTP wall clock"]
