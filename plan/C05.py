from engine import G

LEVEL = "other"
LEVEL_TEXT = ("Mixed strength, reported per group: P = unbounded (loop contracts, symbolic n): exact-size memory safety, frame, "
              "termination, flag ranges, ASSERT-freedom; Pc = complete over all 2^W words; B = value-exactness against "
              "double-width reference arithmetic for concrete operand lengths (symbolic contents, every documented aliasing, "
              "both editions); N = native differential search stand-in (not proof) where no back end answers.")
ZZ = ["src/math/zz/zz_add.c", "src/math/ww.c", "src/core/mem.c", "src/core/util.c", "src/core/word.c",
      "src/core/u64.c", "src/core/u32.c", "src/core/u16.c"]
GROUPS = []
for n in (1, 2, 4):
    for al in (0, 1, 2, 3, 4):
        GROUPS.append(G("zz_add.n%d.alias%d" % (n, al), "harness/C05/zz_add.c", "h_zz_add", ZZ,
                        defs=["N=%d" % n, "ALIAS=%d" % al], level="B", bound="operand length <= 4 words (quick) / 8 (thorough)",
                        unwind=8 * n + 8, search=20000, split=True,
                        fn=["zzAdd", "zzAdd2", "zzAddW", "zzAddW2", "zzSub", "zzSub2", "zzSubW", "zzSubW2", "zzNeg",
                            "zzIsSumEq", "zzIsSumWEq"]))
# Knuth division on structured operands (add-back / correction steps), native only
for n, m in ((3, 3), (4, 3), (6, 3), (6, 4), (8, 4), (5, 5), (8, 8)):
    GROUPS.append(G("zz_div.stress.n%d.m%d.search" % (n, m), "harness/C05/zz_div.c", "h_divstress",
                    ["src/math/zz/zz_mul.c", "src/math/zz/zz_add.c", "src/math/zz/zz_etc.c", "src/math/ww.c", "src/core/mem.c", "src/core/word.c", "src/core/u64.c", "src/core/u32.c"],
                    defs=["N=%d" % n, "M=%d" % m], level="N", backend="native", search=40000, fn=["zzDiv", "zzMod"],
                    note="structured operands (words from {0, 1, B-1, B/2, B/2 +- 1, 2^k, 2^k - 1}, near-multiples of the divisor) so that the "
                         "correction steps of algorithm D are reached; against the schoolbook reference; NOT proof"))
TRUSTED = ["harness/ref.h: reference arithmetic in a double-width type (the spec)"]
ASSUMPTIONS = ["array lengths capped at 2^20 words in unbounded contracts (excludes only address-arithmetic overflow)",
               "little-endian target; 64-bit words unless a group says arch=32"]
NOT_COVERED = ["value-exactness of zzMul/zzSqr/zzDiv/zzMod/zzGCD/zzExGCD/zzPowerMod/zzRedBarr beyond what the listed groups state",
               "zm/gfp/qr/gf2 object layers, ppMul Karatsuba, ppGCD/ppExGCD/ppMod"]

WW = ["src/math/ww.c", "src/core/mem.c", "src/core/word.c", "src/core/u64.c", "src/core/u32.c", "src/core/u16.c"]
WWFN_BASIC = ["wwCopy", "wwSwap", "wwEq", "wwEq_fast", "wwCmp", "wwCmp_fast", "wwCmp2", "wwCmp2_fast", "wwCmpW", "wwCmpW_fast",
              "wwXor", "wwXor2", "wwSetZero", "wwSetW", "wwRepW", "wwIsZero", "wwIsZero_fast", "wwIsW", "wwIsW_fast",
              "wwIsRepW", "wwIsRepW_fast", "wwWordSize", "wwOctetSize", "wwBitSize", "wwHiZeroBits", "wwLoZeroBits"]
for n, m in ((0, 0), (1, 1), (2, 1), (1, 3), (3, 3), (4, 2)):
    GROUPS.append(G("ww_basic.n%d.m%d" % (n, m), "harness/C05/ww.c", "h_ww_basic", WW, defs=["N=%d" % n, "M=%d" % m],
                    level="B", bound="operand length <= 4 words", unwind=max(n, m) + 10, spec_unwind=66, search=20000, split=True, fn=WWFN_BASIC))
for n in (1, 2, 3):
    GROUPS.append(G("ww_bits.n%d" % n, "harness/C05/ww.c", "h_ww_bits", WW, defs=["N=%d" % n], level="B",
                    bound="operand length <= 3 words, every bit position / width", unwind=n + 3, spec_unwind=64 * n + 2, search=20000, split=True,
                    fn=["wwTestBit", "wwGetBits", "wwSetBit", "wwSetBits", "wwFlipBit"]))
    GROUPS.append(G("ww_shift.n%d" % n, "harness/C05/ww.c", "h_ww_shift", WW, defs=["N=%d" % n], level="B",
                    bound="operand length <= 3 words, every shift 0..(n+3)*B_PER_W", unwind=n + 3, spec_unwind=n + 4, search=20000, split=True,
                    fn=["wwShLo", "wwShHi", "wwShLoCarry", "wwShHiCarry", "wwTrimLo", "wwTrimHi"]))

MEM = ["src/core/mem.c", "src/core/word.c", "src/core/u64.c", "src/core/u32.c", "src/core/u16.c"]
MEMFN = ["memCopy", "memMove", "memSet", "memNeg", "memEq", "memEq_fast", "memCmp", "memCmp_fast", "memCmpRev", "memCmpRev_fast",
         "memIsZero", "memIsZero_fast", "memNonZeroSize", "memIsRep", "memIsRep_fast", "memXor", "memXor2", "memSwap", "memRev"]
for cnt in (0, 1, 7, 8, 9, 16, 19):
    GROUPS.append(G("mem.cnt%d" % cnt, "harness/C05/mem.c", "h_mem", MEM, defs=["CNT=%d" % cnt], level="B",
                    bound="buffer length in {0,1,7,8,9,16,19} octets (both sides of the word/octet loop split)",
                    unwind=cnt + 3, spec_unwind=cnt + 3, search=20000, split=True, fn=MEMFN))
for c1, c2 in ((1, 1), (2, 1), (1, 2), (3, 2), (2, 3), (3, 3)):
    GROUPS.append(G("mem_join.%d.%d" % (c1, c2), "harness/C05/mem.c", "h_mem_join", MEM, defs=["C1=%d" % c1, "C2=%d" % c2],
                    level="B", bound="memJoin: count1, count2 <= 3, every placement of dest/src1/src2 in one arena",
                    unwind=c1 + c2 + 3, spec_unwind=3 * (c1 + c2) + 4, search=50000, fn=["memJoin", "memMove"], timeout=600))
GROUPS.append(G("mem_move.5", "harness/C05/mem.c", "h_mem_move", MEM, defs=["C1=5", "C2=0"], level="B",
                bound="memMove: count 5, every placement in one arena", unwind=8, spec_unwind=20, search=50000, fn=["memMove"]))

ZZM = ["src/math/zz/zz_mod.c", "src/math/zz/zz_add.c", "src/math/zz/zz_etc.c", "src/math/ww.c", "src/core/mem.c",
       "src/core/word.c", "src/core/u64.c", "src/core/u32.c", "src/core/u16.c"]
ZZMFN = [f + e for f in ("zzAddMod", "zzSubMod", "zzAddWMod", "zzSubWMod", "zzNegMod", "zzDoubleMod", "zzHalfMod") for e in ("", "_fast")] + \
        ["zzAddAndW", "zzSubAndW", "zzIsEven", "zzIsOdd"]
for n in (1, 2, 4):
    for al in (0, 1, 2, 4):
        GROUPS.append(G("zz_mod.n%d.alias%d" % (n, al), "harness/C05/zz_mod.c", "h_zz_mod", ZZM,
                        defs=["N=%d" % n, "ALIAS=%d" % al], level="B", bound="operand length <= 4 words",
                        unwind=n + 3, spec_unwind=n + 3, search=30000, split=True, fn=ZZMFN))

ZZR = ["src/math/zz/zz_red.c", "src/math/zz/zz_mul.c", "src/math/zz/zz_mod.c", "src/math/zz/zz_add.c", "src/math/zz/zz_etc.c",
       "src/math/ww.c", "src/core/mem.c", "src/core/word.c", "src/core/u64.c", "src/core/u32.c", "src/core/u16.c"]
def red_group(name, entry, n, part, fn, **kw):
    return G(name, "harness/C05/zz_red.c", entry, ZZR, defs=["N=%d" % n, "PART=%d" % part], level="B", backend="portfolio",
             bound="modulus length %d word(s): all moduli, operands and parameters of that length" % n,
             unwind=n + 3, spec_unwind=2 * n + 4, search=300000, fn=fn, checks=[], extra=["--no-standard-checks"], ndebug=True, split=True, **kw)
MONT = ["zzRedMont", "zzRedMont_fast"]
CRAND = ["zzRedCrand", "zzRedCrand_fast", "zzRedCrandMont", "zzRedCrandMont_fast"]
GROUPS.append(red_group("zz_red.mont.n1.rel", "h_red_mont", 1, 1, MONT, timeout=300,
                        note="SAFE edition == FAST edition on equal inputs (nonlinear, structure-aligned: SMT portfolio)"))
GROUPS.append(red_group("zz_red.crand.n2.rel", "h_red_crand", 2, 1, CRAND, timeout=1500, tier="thorough", required=False,
                        note="attempted: measured no answer in 400 s on cvc5 and z3 (Crandall forms need n >= 2)"))
for part, what in ((1, "SAFE == FAST"), (2, "result < mod and, for zzRedCrand, == a mod m")):
    for ent, n, fn in (("h_red_mont", 1, MONT), ("h_red_mont", 2, MONT), ("h_red_mont", 4, MONT),
                       ("h_red_crand", 2, CRAND), ("h_red_crand", 4, CRAND)):
        GROUPS.append(G("zz_red.%s.n%d.part%d.search" % (ent[6:], n, part), "harness/C05/zz_red.c", ent, ZZR,
                        defs=["N=%d" % n, "PART=%d" % part], level="N", backend="native", search=400000, fn=fn,
                        note="native differential search (ASan/UBSan build of the real sources, seeded, steered to multiples "
                             "of the modulus): stand-in where no back end answers; NOT proof: " + what))
GROUPS.append(red_group("zz_red.mont.n2.rel", "h_red_mont", 2, 1, MONT, timeout=1500, tier="thorough", required=False,
                        note="attempted"))
GROUPS.append(red_group("zz_red.mont.n1.reduced", "h_red_mont", 1, 2, MONT, timeout=200, tier="thorough", required=False,
                        note="attempted: 'result < mod' is a free-standing multiplication fact; no installed back end decides it; "
                             "native search stands in"))
GROUPS.append(red_group("zz_red.crand.n2.reduced", "h_red_crand", 2, 2, CRAND, timeout=200, tier="thorough", required=False,
                        note="attempted, as above"))

UXX = ["src/core/u16.c", "src/core/u32.c", "src/core/u64.c", "src/core/mem.c", "src/core/word.c"]
for w in (16, 32, 64):
    fns = ["u%d%s" % (w, f) for f in ("Rev", "Bitrev", "Weight", "Parity", "CTZ", "CTZ_fast", "CLZ", "CLZ_fast", "Shuffle", "Deshuffle", "RotHi", "RotLo")]
    GROUPS.append(G("uxx.w%d" % w, "harness/C05/uxx.c", "h_uxx", UXX, defs=["W=%d" % w], level="Pc", unwind=w + 2, spec_unwind=w + 2,
                    search=50000, split=True, fn=fns, note="complete over all 2^%d words (loops bounded by the word width)" % w))
    GROUPS.append(G("uxx_neginv.w%d" % w, "harness/C05/uxx.c", "h_uxx_neginv", UXX, defs=["W=%d" % w], level="Pc",
                    unwind=w + 2, search=200000, fn=["u%dNegInv" % w], backend="sat" if w < 64 else "portfolio",
                    required=(w == 16), timeout=300, tier="quick" if w == 16 else "thorough",
                    extra=["--no-standard-checks"] if w == 64 else [],
                    note="multiplier fact: complete for 16 bit; 32/64 bit attempted only (no back end answers)"))
    if w > 16:
        GROUPS.append(G("uxx_neginv.w%d.search" % w, "harness/C05/uxx.c", "h_uxx_neginv", UXX, defs=["W=%d" % w], level="N",
                        backend="native", search=2000000, fn=["u%dNegInv" % w], note="native search stand-in; NOT proof"))
    for cnt in sorted({0, 1, w // 8 - 1, w // 8, w // 8 + 1, 2 * w // 8 + 1}):
        GROUPS.append(G("uxx_fromto.w%d.cnt%d" % (w, cnt), "harness/C05/uxx.c", "h_uxx_fromto", UXX, defs=["W=%d" % w, "CNT=%d" % cnt],
                        level="B", bound="octet count <= 2 words + 1", unwind=cnt + 10, spec_unwind=cnt + 10, search=20000,
                        fn=["u%dFrom" % w, "u%dTo" % w]))

PP = ["src/math/pp/pp_etc.c", "src/math/pp/pp_gcd.c", "src/math/pp/pp_mod.c", "src/math/pp/pp_mul.c", "src/math/pp/pp_red.c", "src/math/ww.c",
      "src/core/mem.c", "src/core/util.c", "src/core/word.c", "src/core/u64.c", "src/core/u32.c", "src/core/u16.c"]
# measured: the value obligations of ppMul/ppSqr/ppDiv/ppMod/ppMulMod (4-bit window tables) get no SAT answer in 900 s even for
# one-word operands; the pp layer is covered by native runs of the same harness (N) and by ppRedBelt (complete).
for n, m in ((1, 1), (2, 1), (2, 2), (3, 2), (9, 9)):
    GROUPS.append(G("pp_mul.n%d.m%d.search" % (n, m), "harness/C05/pp.c", "h_pp_mul", PP, defs=["N=%d" % n, "M=%d" % m], level="N", backend="native",
                    search=100000, fn=["ppDeg", "ppMul", "ppSqr", "ppMulW", "ppAddMulW"], note="native search stand-in; NOT proof"))
for n in (1, 2, 3, 4, 9):
    GROUPS.append(G("pp_modular.n%d.search" % n, "harness/C05/pp.c", "h_pp_modular", PP, defs=["N=%d" % n, "M=%d" % n], level="N", backend="native",
                    search=100000, fn=["ppMulMod", "ppSqrMod", "ppRed", "ppMod"], note="native search stand-in (moduli of degree multiple of the word length included); NOT proof"))
    for m in sorted({1, n}):
        GROUPS.append(G("pp_gcd.n%d.m%d.search" % (n, m), "harness/C05/pp.c", "h_pp_gcd", PP, defs=["N=%d" % n, "M=%d" % m], level="N", backend="native",
                        search=60000, fn=["ppGCD", "ppExGCD"], note="native search stand-in for the Euclid family (data-dependent loops); NOT proof"))
        GROUPS.append(G("pp_mod.n%d.m%d.search" % (n, m), "harness/C05/pp.c", "h_pp_mod", PP, defs=["N=%d" % n, "M=%d" % m], level="N", backend="native",
                        search=100000, fn=["ppDiv", "ppMod"], note="native search stand-in; NOT proof"))
GROUPS.append(G("pp_redbelt", "harness/C05/pp.c", "h_pp_redbelt", PP, level="Pc", unwind=300, spec_unwind=300, search=100000, timeout=900,
                fn=["ppRedBelt"], note="all 256-bit inputs"))

# ---- unbounded contract groups (dfcc + loop contracts), symbolic n ---------------------
def L(assigns, inv, dec="n - i"):
    return dict(assigns=assigns, inv=inv, dec=dec)

LOOPS_ZZ_ADD = {
    "zzAdd": [L("i, carry, w, __CPROVER_object_whole(c)", "i <= n && carry <= 1")],
    "zzAdd2": [L("i, carry, w, __CPROVER_object_whole(b)", "i <= n && carry <= 1")],
    "zzAddW": [L("i, w, __CPROVER_object_whole(b)", "i <= n && (i == 0 ? w == __CPROVER_loop_entry(w) : w <= 1)")],
    "zzAddW2": [L("i, w, __CPROVER_object_whole(a)", "i <= n && (i == 0 ? w == __CPROVER_loop_entry(w) : w <= 1)")],
    "zzIsSumEq": [L("i, carry, w, diff", "i <= n && carry <= 1")],
    "zzIsSumEq_fast": [L("i, carry, w", "i <= n && carry <= 1")],
    "zzIsSumWEq": [L("i, w, diff", "i <= n")],
    "zzIsSumWEq_fast": [L("i, w", "i <= n")],
    "zzSub": [L("i, borrow, w, __CPROVER_object_whole(c)", "i <= n && borrow <= 1")],
    "zzSub2": [L("i, borrow, w, __CPROVER_object_whole(b)", "i <= n && borrow <= 1")],
    "zzSubW": [L("i, w, __CPROVER_object_whole(b)", "i <= n && (i == 0 ? w == __CPROVER_loop_entry(w) : w <= 1)")],
    "zzSubW2": [L("i, w, __CPROVER_object_whole(a)", "i <= n && (i == 0 ? w == __CPROVER_loop_entry(w) : w <= 1)")],
    "zzNeg": [L("i, __CPROVER_object_whole(b)", "i <= n")],
}
ZZ_ADD_SRCS = ["src/math/zz/zz_add.c", "src/core/mem.c"]
def contract_groups(fnlist, loops, harness, srcs, prefix, **kw):
    out = []
    for fn, variants in fnlist:
        for v in variants:
            c = "c_" + fn + (("_" + v) if v else "")
            used = {f: loops[f] for f in loops if f == fn or f in kw.get("callees", {}).get(fn, ())}
            out.append(G("%s.%s%s" % (prefix, fn, ("." + v) if v else ""), harness, "h_" + fn, srcs,
                         enforce=[(fn, c)], loops=used, level="P", native=False, fn=[fn],
                         note="contract %s: exact-size buffers, frame, termination, flag range, ASSERT-freedom; symbolic n" % c,
                         timeout=kw.get("timeout", 1200)))
    return out

GROUPS += contract_groups(
    [("zzAdd", ["", "ca", "cab"]), ("zzSub", ["", "ca", "cab"]), ("zzAdd2", ["", "ba"]), ("zzSub2", ["", "ba"]),
     ("zzAddW", ["", "ba"]), ("zzSubW", ["", "ba"]), ("zzAddW2", [""]), ("zzSubW2", [""]), ("zzNeg", ["", "ba"]),
     ("zzIsSumEq", [""]), ("zzIsSumEq_fast", [""]), ("zzIsSumWEq", [""]), ("zzIsSumWEq_fast", [""])],
    LOOPS_ZZ_ADD, "harness/C05/c_zz_add.c", ZZ_ADD_SRCS, "contract.zz_add", callees={"zzNeg": ["zzAddW2"]})
