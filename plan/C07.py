from engine import G
import importlib.util, os
_spec = importlib.util.spec_from_file_location("plan_C05_for_C07", os.path.join(os.path.dirname(__file__), "C05.py"))
_c05 = importlib.util.module_from_spec(_spec); _spec.loader.exec_module(_c05)

LEVEL = "other"
LEVEL_TEXT = ("Regime (a), P: leaf routines of zz_add.c / ww.c / mem.c / zz_etc.c / zz_mod.c under function contracts with every loop "
              "closed by a loop contract -- symbolic, unbounded lengths; every buffer an object of exactly the documented size; frame, "
              "termination and ASSERT-freedom included.  Regime (b), B/N: routines with a scratch stack or state run on a stack/state "
              "of exactly f_deep()/f_keep() octets for concrete operand sizes.")

def L(assigns, inv, dec):
    return dict(assigns=assigns, inv=inv, dec=dec)
DN = lambda extra="": L("n" + (", " + extra if extra else ""), "n <= __CPROVER_loop_entry(n)", "n")
DN1 = lambda extra="": L("n" + (", " + extra if extra else ""), "1 <= n && n <= __CPROVER_loop_entry(n)", "n")
WA, WB, WC = "__CPROVER_object_whole(a)", "__CPROVER_object_whole(b)", "__CPROVER_object_whole(c)"
LOOPS_WW = {
    "wwCopy": [DN(WB)], "wwSwap": [DN(WA + ", " + WB)],
    "wwEq": [DN("diff")], "wwEq_fast": [DN()],
    "wwCmp": [DN("less, greater")], "wwCmp_fast": [DN()],
    "wwCmpW_fast": [L("n, cmp", "1 <= n && n <= __CPROVER_loop_entry(n) && (cmp == 0 || cmp == 1)", "n")],
    "wwXor": [DN(WC)], "wwXor2": [DN(WB)], "wwSetZero": [DN(WA)],
    "wwSetW": [DN1(WA)], "wwRepW": [DN(WA)],
    "wwIsZero": [DN("diff")], "wwIsZero_fast": [DN()],
    "wwIsW": [L("n, ret", "1 <= n && n <= __CPROVER_loop_entry(n) && (ret == 0 || ret == 1)", "n")],
    "wwIsW_fast": [L("n, ret", "1 <= n && n <= __CPROVER_loop_entry(n) && (ret == 0 || ret == 1)", "n")],
    "wwIsRepW": [L("n, ret", "1 <= n && n <= __CPROVER_loop_entry(n) && (ret == 0 || ret == 1)", "n")],
    "wwIsRepW_fast": [DN1("ret")],
    "wwWordSize": [DN()],
    "wwOctetSize": [DN(), L("pos, mask", "pos <= 8 - 1 && mask == ((unsigned long)0xFF << (8 * pos)) && (a[n] & (mask | (mask - 1))) != 0", "pos")],
    "wwLoZeroBits": [L("i", "i <= n", "n - i")],
    "wwShLo": [L("pos, " + WA, "wshift < n && pos <= n && pos + wshift + 1 <= n", "n - pos"),
               L("pos, " + WA, "wshift <= n && pos <= n && pos + wshift <= n", "n - pos"),
               L("pos, " + WA, "pos <= n", "n - pos")],
    "wwShLoCarry": [L("pos, " + WA, "wshift <= n && (pos == 0 || (pos <= n && pos + wshift + 1 <= n))", "n - pos"),
                    L("pos, " + WA, "wshift <= n && (pos == 0 || (pos <= n && pos + wshift <= n))", "n - pos"),
                    L("pos, " + WA, "pos <= n", "n - pos")],
    "wwShHi": [L("pos, " + WA, "wshift <= pos && pos < n", "pos"),
               L("pos, " + WA, "pos + 1 >= wshift && pos + 1 <= n", "pos + 1"),
               L("pos, " + WA, "pos + 1 <= n", "pos + 1")],
    "wwShHiCarry": [L("pos, " + WA, "pos + 1 <= n", "pos + 1"),
                    L("pos, " + WA, "pos + 1 <= n", "pos + 1"),
                    L("pos, " + WA, "pos + 1 <= n", "pos + 1")],
    "wwTrimLo": [L("i, " + WA, "i <= n", "i")],
    "wwTrimHi": [L("i, " + WA, "i < n", "n - i")],
    "wwHiZeroBits": [L("i", "i <= n", "i")],
}
WW_SRCS = ["src/math/ww.c", "src/core/mem.c", "src/core/word.c", "src/core/u64.c", "src/core/u32.c", "src/core/u16.c"]
CALLEES_WW = {"wwCmp2": ["wwIsZero", "wwCmp"], "wwCmp2_fast": ["wwIsZero_fast", "wwCmp_fast"], "wwCmpW": ["wwIsZero"],
              "wwBitSize": ["wwHiZeroBits"], "wwShLo": ["wwSetZero"], "wwShHi": ["wwSetZero"], "wwShLoCarry": ["wwSetZero"],
              "wwShHiCarry": ["wwSetZero"]}
def contract_groups(fnlist, loops, harness, srcs, prefix, callees=None, **kw):
    out = []
    for fn, variants in fnlist:
        for v in variants:
            c = "c_" + fn + (("_" + v) if v else "")
            used = {f: loops[f] for f in loops if f == fn or f in (callees or {}).get(fn, ())}
            out.append(G("%s.%s%s" % (prefix, fn, ("." + v) if v else ""), harness, "h_" + fn, srcs,
                         enforce=[(fn, c)], loops=used or None, dfcc=True, level="P", native=False, fn=[fn],
                         note="contract %s: exact-size buffers, frame, termination, result range, ASSERT-freedom; symbolic n" % c,
                         timeout=kw.get("timeout", 1200)))
    return out
GROUPS = []
GROUPS += contract_groups(
    [("wwCopy", ["", "ba"]), ("wwSwap", [""]), ("wwEq", [""]), ("wwEq_fast", [""]), ("wwCmp", [""]), ("wwCmp_fast", [""]),
     ("wwCmp2", [""]), ("wwCmp2_fast", [""]), ("wwCmpW", [""]), ("wwCmpW_fast", [""]), ("wwXor", ["", "ca"]), ("wwXor2", [""]),
     ("wwSetZero", [""]), ("wwSetW", [""]), ("wwRepW", [""]), ("wwIsZero", [""]), ("wwIsZero_fast", [""]), ("wwIsW", [""]),
     ("wwIsW_fast", [""]), ("wwIsRepW", [""]), ("wwIsRepW_fast", [""]), ("wwWordSize", [""]), ("wwOctetSize", [""]),
     ("wwLoZeroBits", [""]), ("wwHiZeroBits", [""]), ("wwBitSize", [""]),
     ("wwShLo", [""]), ("wwShHi", [""]), ("wwShLoCarry", [""]), ("wwShHiCarry", [""]), ("wwTrimLo", [""]), ("wwTrimHi", [""]),
     ("wwTestBit", [""]), ("wwSetBit", [""]), ("wwFlipBit", [""]), ("wwGetBits", [""]), ("wwSetBits", [""])],
    LOOPS_WW, "harness/C07/c_ww.c", WW_SRCS, "contract.ww", callees=CALLEES_WW)
# mem.c: the cursor pointers walk through their object.  The loop-contract side file cannot name
# __CPROVER_POINTER_OFFSET / OBJECT_SIZE (its expression parser lacks the builtin declarations), so these
# loop contracts are written in place on a scratch copy of mem.c (rewrite rule "annotate": the text of the
# function is unchanged, annotations are inserted after the loop headers; must-fire).
def PW(ptrs, extra=""):
    inv = " && ".join("__CPROVER_same_object(%s, __CPROVER_loop_entry(%s)) && __CPROVER_POINTER_OFFSET(%s) - "
                      "__CPROVER_POINTER_OFFSET(__CPROVER_loop_entry(%s)) + count == __CPROVER_loop_entry(count)" % (p, p, p, p)
                      for p in ptrs)
    targets = (extra + ", " if extra else "") + ", ".join(list(ptrs) + ["count"])
    return ("__CPROVER_assigns(%s) __CPROVER_loop_invariant(%s && count <= __CPROVER_loop_entry(count)) "
            "__CPROVER_decreases(count)" % (targets, inv))
def OBJ(*ps): return ", ".join("__CPROVER_object_from(%s)" % p for p in ps)
SIG = lambda f: (r"\bFAST\(%s\)\(" % f[:-5]) if f.endswith("_fast") else (r"\b(SAFE\(%s\)|%s)\(" % (f, f))
# memNeg/memXor/memXor2/memSwap (writers whose cursor is a parameter) exhaust the solver in the loop havoc (measured: SAT out of
# memory at 8 GB even for a 1 KiB cap); they stay bounded (C05 mem.* groups).
ANN_MEM = {
    "memEq": [PW(["buf1", "buf2"], "diff"), PW(["buf1", "buf2"], "diff")],
    "memIsZero": [PW(["buf"], "diff"), PW(["buf"], "diff")],
    "memIsZero_fast": [PW(["buf"]), PW(["buf"])],
    "memIsRep": [PW(["buf"], "diff")], "memIsRep_fast": [PW(["buf"])],
}
LOOPS_MEM = {
    "memNonZeroSize": [L("count", "count <= __CPROVER_loop_entry(count)", "count")],
    "memRev": [L("i, __CPROVER_object_whole(buf)", "i <= count / 2", "i")],
}
MEM_SRCS = ["src/core/mem.c", "src/core/word.c", "src/core/u64.c", "src/core/u32.c", "src/core/u16.c"]
GROUPS += contract_groups([(f, [""]) for f in LOOPS_MEM], LOOPS_MEM, "harness/C07/c_mem.c", MEM_SRCS, "contract.mem")
for f, ann in ANN_MEM.items():
    GROUPS.append(G("contract.mem." + f, "harness/C07/c_mem.c", "h_" + f, MEM_SRCS, enforce=[(f, "c_" + f)],
                    rewrite=[dict(file="src/core/mem.c", sig=SIG(f), loops=ann)], inline_loops=True, level="P", native=False, fn=[f],
                    note="contract c_%s with in-place loop contracts (cursor stays inside its object): symbolic count" % f))
LI = lambda extra, obj: L("i, " + extra + (", " if extra else "") + "__CPROVER_object_whole(%s)" % obj, "i <= n", "n - i")
LOOPS_ZZ = dict(_c05.LOOPS_ZZ_ADD)
LOOPS_ZZ.update({
    "zzMulW": [LI("carry, prod", "b")], "zzAddMulW": [LI("carry, prod", "b")], "zzSubMulW": [LI("borrow, prod", "b")],
    "zzAddAndW": [LI("carry, prod", "b")],
    "zzSubAndW": [L("i, borrow, prod, __CPROVER_object_whole(b)", "i <= n && borrow <= 1", "n - i")],
    "zzMul": [L("j, carry, prod, __CPROVER_object_whole(c)", "j <= m && i < n", "m - j"),
              L("i, j, carry, prod, __CPROVER_object_whole(c)", "i <= n", "n - i")],
    "zzSqr": [L("j, carry, prod, __CPROVER_object_whole(b)", "i < n && i + 1 <= j && j <= n", "n - j"),
              L("i, j, carry, prod, __CPROVER_object_whole(b)", "i <= n", "n - i"),
              L("i, carry, carry1, __CPROVER_object_whole(b)", "i <= n + n", "n + n - i"),
              L("i, carry, prod, __CPROVER_object_whole(b)", "i <= n", "n - i")],
    "zzAddMod": [L("i, carry, mask, w, __CPROVER_object_whole(c)", "i <= n", "n - i")],
    "zzAddWMod": [L("i, mask, w, __CPROVER_object_whole(b)", "i <= n", "n - i")],
    "zzDoubleMod": [L("i, carry, hi, mask, __CPROVER_object_whole(b)", "i <= n", "n - i")],
    "zzDoubleMod_fast": [L("i, carry, hi, __CPROVER_object_whole(b)", "i <= n", "n - i")],
    "zzHalfMod": [L("i, carry, w, __CPROVER_object_whole(b)", "1 <= i && i <= n", "n - i")],
    "zzHalfMod_fast": [DN("lo, carry, " + WB), DN("lo, carry, " + WB)],
})
LOOPS_ZZ.update(LOOPS_WW)
ZZ_SRCS = ["src/math/zz/zz_mul.c", "src/math/zz/zz_etc.c", "src/math/zz/zz_mod.c", "src/math/zz/zz_add.c", "src/math/ww.c", "src/core/mem.c",
           "src/core/word.c", "src/core/u64.c", "src/core/u32.c", "src/core/u16.c"]
CALLEES_ZZ = {"zzMul": ["wwSetZero"], "zzSqr": ["wwSetZero"],
              "zzAddMod": ["zzSubAndW"], "zzAddWMod": ["zzSubAndW"], "zzSubMod": ["zzSub", "zzAddAndW"], "zzSubWMod": ["zzSubW", "zzAddAndW"],
              "zzNegMod": ["zzSub", "wwEq", "zzSubAndW"], "zzDoubleMod": ["zzSubAndW"], "zzHalfMod": [],
              "zzAddMod_fast": ["zzAdd", "wwCmp_fast", "zzSub2"], "zzSubMod_fast": ["zzSub", "zzAdd2"],
              "zzAddWMod_fast": ["zzAddW", "wwCmp", "zzSub2"], "zzSubWMod_fast": ["zzSubW", "zzAdd2"],
              "zzNegMod_fast": ["wwIsZero", "zzSub", "wwSetZero"], "zzDoubleMod_fast": ["wwCmp", "zzSub2"],
              "zzHalfMod_fast": ["zzAdd"]}
GROUPS += contract_groups([(f, [""]) for f in ("zzMulW", "zzAddMulW", "zzSubMulW", "zzAddAndW", "zzSubAndW", "zzMul", "zzSqr")],
                          LOOPS_ZZ, "harness/C07/c_zz.c", ZZ_SRCS, "contract.zz", callees=CALLEES_ZZ)
_mod = contract_groups([(f + e, [""]) for f in ("zzAddMod", "zzSubMod", "zzAddWMod", "zzSubWMod", "zzNegMod", "zzDoubleMod", "zzHalfMod")
                        for e in ("", "_fast")], LOOPS_ZZ, "harness/C07/c_zz.c", ZZ_SRCS, "contract.zz_mod", callees=CALLEES_ZZ)
for g in _mod:
    g["ndebug"] = True
    g["note"] += " (NDEBUG: value preconditions are not expressible for symbolic n)"
GROUPS += _mod
# regime (b): exact-size scratch stacks; concrete operand sizes
ZZALL = ["src/math/zz/zz_add.c", "src/math/zz/zz_etc.c", "src/math/zz/zz_gcd.c", "src/math/zz/zz_mod.c", "src/math/zz/zz_mul.c",
         "src/math/zz/zz_pow.c", "src/math/zz/zz_red.c", "src/math/ww.c", "src/math/zm.c", "src/math/qr.c", "src/core/mem.c",
         "src/core/util.c", "src/core/word.c", "src/core/u64.c", "src/core/u32.c", "src/core/u16.c", "src/core/obj.c", "src/core/blob.c"]
DEEP = {"zzSqrt": ["zzSqrt", "zzSqrt_deep"], "zzDiv": ["zzDiv", "zzMod", "zzDiv_deep", "zzMod_deep"],
        "zzMulMod": ["zzMulMod", "zzSqrMod", "zzMulWMod", "zzMulMod_deep", "zzSqrMod_deep", "zzMulWMod_deep"],
        "zzRed": ["zzRed", "zzRedBarrStart", "zzRedBarr", "zzRedBarr_fast", "zzRed_deep", "zzRedBarrStart_deep", "zzRedBarr_deep"],
        "zzGCD": ["zzGCD", "zzIsCoprime", "zzLCM", "zzExGCD", "zzJacobi", "zzGCD_deep", "zzLCM_deep", "zzExGCD_deep", "zzJacobi_deep"],
        "zzInvMod": ["zzDivMod", "zzInvMod", "zzAlmostInvMod", "zzDivMod_deep", "zzInvMod_deep", "zzAlmostInvMod_deep"],
        "zzPowerMod": ["zzPowerMod", "zzPowerMod_deep"]}
for f, fns in DEEP.items():
    # second operand longer than the first: only the GCD family admits it (added after seeded C07/m5: zzGCD_deep = 2n)
    for n, m in ((1, 1), (2, 1), (2, 2), (3, 2), (4, 4), (6, 3), (8, 8), (1, 2), (1, 3), (2, 4), (3, 4), (3, 7)):
        if n < m and f != "zzGCD":
            continue
        if f in ("zzMulMod", "zzRed", "zzInvMod") and n != m:
            continue
        if f == "zzDiv" and n < m:
            continue
        GROUPS.append(G("deep.%s.n%d.m%d.search" % (f, n, m), "harness/C07/deep_zz.c", "h_deep", ZZALL,
                        defs=["N=%d" % n, "M=%d" % m, "F_" + f], level="N", backend="native", search=60000, fn=fns,
                        note="native ASan/UBSan run on a scratch stack of exactly f_deep() octets, seeded search over operand values; NOT proof"))
PPALL = ["src/math/pp/pp_etc.c", "src/math/pp/pp_mod.c", "src/math/pp/pp_mul.c", "src/math/pp/pp_red.c", "src/math/pp/pp_gcd.c",
         "src/math/ww.c", "src/core/mem.c", "src/core/util.c", "src/core/word.c", "src/core/u64.c", "src/core/u32.c", "src/core/u16.c"]
DEEP_PP = {"ppIsIrred": ["ppIsIrred", "ppIsIrred_deep"], "ppMinPoly": ["ppMinPoly", "ppMinPoly_deep"],
           "ppMinPolyMod": ["ppMinPolyMod", "ppMinPolyMod_deep"]}
for f, fns in DEEP_PP.items():
    for n in (1, 2, 3, 5):
        GROUPS.append(G("deep.%s.n%d.search" % (f, n), "harness/C07/deep_pp.c", "h_deep", PPALL,
                        defs=["N=%d" % n, "F_" + f], level="N", backend="native", search=3000 if f == "ppMinPolyMod" else 20000, fn=fns,
                        note="native ASan/UBSan run on a scratch stack of exactly f_deep() octets, seeded search over operand values; NOT proof"))
GROUPS.append(G("deep.ppMulAll.search", "harness/C07/deep_pp.c", "h_deep", PPALL, defs=["F_ppMulAll"], level="N", backend="native", search=60000,
                fn=["ppMul", "ppSqr", "ppDiv", "ppMod", "ppMul_deep", "ppSqr_deep", "ppDiv_deep", "ppMod_deep"],
                note="every operand size 1..24 x 1..24 (all Karatsuba levels and fixed-size kernels) on stacks of exactly f_deep() octets; NOT proof"))
for l in (1, 7, 63, 65, 100):
    GROUPS.append(G("deep.ppMinPoly.l%d.search" % l, "harness/C07/deep_pp.c", "h_deep", PPALL,
                    defs=["L=%d" % l, "F_ppMinPoly"], level="N", backend="native", search=20000, fn=DEEP_PP["ppMinPoly"],
                    note="native ASan/UBSan run on a scratch stack of exactly ppMinPoly_deep(l) octets; NOT proof"))
# measured: the same harness under CBMC with the real zzDiv/zzMod bodies gives no answer in 900 s even for n = 1
# (Knuth division); so the CBMC side of regime (b) is modular: heavy callees replaced by the memory side of their contracts.
CALC = {"zzSqrt": (["zzSqrt", "zzSqrt_deep"], [("zzDiv", "c_zzDiv")]),
        "zzMulMod": (["zzMulMod", "zzSqrMod", "zzMulWMod", "zzMulMod_deep", "zzSqrMod_deep", "zzMulWMod_deep"],
                     [("zzMul", "c_zzMul"), ("zzSqr", "c_zzSqr"), ("zzMod", "c_zzMod")]),
        "zzRed": (["zzRed", "zzRedBarrStart", "zzRedBarr", "zzRedBarr_fast", "zzRed_deep", "zzRedBarrStart_deep", "zzRedBarr_deep"],
                  [("zzMul", "c_zzMul"), ("zzMod", "c_zzMod"), ("zzDiv", "c_zzDiv")])}
for f, (fns, repl) in CALC.items():
    for n in (1, 2, 3, 4, 6, 8):
        if f == "zzSqrt" and n == 8:
            continue      # measured: SAT out of memory at 12 GB
        GROUPS.append(G("calc.%s.n%d" % (f, n), "harness/C07/calc_zz.c", "h_calc_" + f, ZZALL, defs=["N=%d" % n], replace=repl,
                        level="B", bound="operand size n = %d words; data-dependent loops unwound %d times without unwinding assertions" % (n, (n + 4) if f == "zzSqrt" else (4 * n + 8)),
                        unwind=(n + 4) if f == "zzSqrt" else (4 * n + 8), extra=["--no-unwinding-assertions"], native=False, timeout=900, fn=fns, mem_gb=12,
                        tier="quick" if n in (2, 4) else "thorough",
                        note="keep/deep calculus: real caller body on a stack of exactly f_deep() octets; callees %s replaced by the "
                             "memory side of their contracts (w_ok(stack, callee_deep(args)) is an obligation at each call site)"
                             % ", ".join(a for a, b in repl)))
# states of exactly f_keep() octets: the C10 chunking harnesses and the FMT round trip allocate every state at its exact size,
# so their native (ASan) runs are memory-safety runs for this property as well
def _load(name):
    sp = importlib.util.spec_from_file_location("plan_%s_for_C07" % name, os.path.join(os.path.dirname(__file__), name + ".py"))
    m = importlib.util.module_from_spec(sp); sp.loader.exec_module(m); return m
_c10, _c01 = _load("C10"), _load("C01")
for g in _c10.GROUPS:
    if g["backend"] == "native" and (".x1." in g["name"] or ".x16." in g["name"] or ".x17." in g["name"]):
        g2 = dict(g); g2["name"] = "keep." + g["name"]; GROUPS.append(g2)
for g in _c01.GROUPS:
    if g["name"].startswith(("fmt.roundtrip", "modes.dwp.i21", "modes.dwp.i5.cnt20.search")):
        g2 = dict(g); g2["name"] = "keep." + g["name"]; GROUPS.append(g2)
# the zz_add.c contracts (defined in the C05 plan) belong to this property as well
GROUPS += [g for g in _c05.GROUPS if g["name"].startswith("contract.zz_add")]
# the repository's own test program with every blob allocated at exactly the requested size (blob pages of one octet):
# states and stacks that the high-level functions size through *_keep()/*_deep() lose the 1 KiB slack that hides overruns
GROUPS.append(G("exactblob.testsuite", "", "", [], level="N", backend="suite", native=False, timeout=1200,
                rewrite=[("src/core/blob.c", r"#define BLOB_PAGE_SIZE 1024", "#define BLOB_PAGE_SIZE 1", 1)],
                fn=["blobCreate", "blobResize", "bignStart_keep", "bakeBMQV_keep", "bakeBSTS_keep", "bakeBPACE_keep", "belsValM", "belsGenM0"],
                note="the repository's test vectors only, but on exact-size state/stack blobs under ASan/UBSan; NOT proof. "
                     "The rewrite is mechanical and must fire exactly once; pointer-overflow checks of UBSan are off (objShiftPtrs offsets a null pointer by design)"))
TRUSTED = []
ASSUMPTIONS = ["array lengths capped at 2^20 words (excludes only address-arithmetic overflow)"]
NOT_COVERED = ["zm/gfp/gf2/ec/ecp/ec2 layers behind function-pointer tables and the state layouts built on them (bign, bake, btok, bels)"]
