"""C16: bign96, g12s, dstu, pfok."""
from engine import G
LEVEL = "other"
LEVEL_TEXT = ("bign96: flow contracts of the high-level functions over the contracts of the layers below (as for C02). "
              "g12s, dstu, pfok and the whole bign96 stack: native search only (stand-in, not proof).")
SRC = ["src/crypto/bign96.c", "src/crypto/g12s.c", "src/crypto/dstu.c", "src/crypto/pfok.c", "src/crypto/bign/bign_lcl.c", "src/crypto/bign/bign_params.c", "src/core/obj.c"]
CF = ["-fno-sanitize=pointer-overflow"]   # objShiftPtrs offsets null entries of the pointer table by design (no access through them)
GROUPS = [
    G("roundtrip.bign96.search", "harness/C16/roundtrip.c", "h_bign96", SRC, level="N", backend="native", native_cflags=CF, search=400, timeout=1800,
      fn=["bign96KeypairGen", "bign96KeypairVal", "bign96PubkeyVal", "bign96PubkeyCalc", "bign96Sign", "bign96Sign2", "bign96Verify"],
      note="native ASan/UBSan search over the real stack; hashes incl. FF..FF and q; NOT proof"),
    G("roundtrip.g12s.search", "harness/C16/roundtrip.c", "h_g12s", SRC, level="N", backend="native", native_cflags=CF, search=400, timeout=1800,
      fn=["g12sKeypairGen", "g12sSign", "g12sVerify", "g12sParamsVal"],
      note="all 8 standard parameter sets; hashes 0, FF..FF, q; r/s = 0, q; NOT proof"),
    G("roundtrip.dstu.search", "harness/C16/roundtrip.c", "h_dstu", SRC, level="N", backend="native", native_cflags=CF, search=300, timeout=1800,
      fn=["dstuPointGen", "dstuPointVal", "dstuPointCompress", "dstuPointRecover", "dstuKeypairGen", "dstuSign", "dstuVerify"],
      note="all 10 standard curves with a generated base point; signature lengths ld; NOT proof"),
    G("roundtrip.pfok.search", "harness/C16/roundtrip.c", "h_pfok", SRC, level="N", backend="native", native_cflags=CF, search=200, timeout=1800,
      fn=["pfokKeypairGen", "pfokPubkeyVal", "pfokPubkeyCalc", "pfokDH", "pfokMTI"],
      note="test parameters mostly, the three standard sets in one run out of 16; NOT proof"),
]
ASSUMPTIONS = []
TRUSTED = []
NOT_COVERED = []
