"""C16: bign96, g12s, dstu, pfok."""
from engine import G
LEVEL = "other"
LEVEL_TEXT = ("bign96: flow contracts of the high-level functions over the contracts of the layers below (as for C02). "
              "g12s, dstu, pfok and the whole bign96 stack: native search only (stand-in, not proof).")
SRC = ["src/crypto/bign96.c", "src/crypto/g12s.c", "src/crypto/dstu.c", "src/crypto/pfok.c", "src/crypto/bign/bign_lcl.c", "src/crypto/bign/bign_params.c", "src/core/obj.c"]
CF = ["-fno-sanitize=pointer-overflow"]   # objShiftPtrs offsets null entries of the pointer table by design (no access through them)
GROUPS = [
    G("roundtrip.bign96.search", "harness/C16/roundtrip.c", "h_bign96", SRC, level="N", backend="native", native_cflags=CF, search=400, timeout=1800,
      fn=["bign96KeypairGen", "bign96KeypairVal", "bign96PubkeyVal", "bign96PubkeyCalc", "bign96Sign", "bign96Sign2", "bign96Verify"],
      note="native ASan/UBSan search over the real stack; hashes incl. FF..FF and q; NOT proof"),
    G("roundtrip.g12s.search", "harness/C16/roundtrip.c", "h_g12s", SRC, level="N", backend="native", native_cflags=CF, search=400, timeout=1800,
      fn=["g12sKeypairGen", "g12sSign", "g12sVerify", "g12sParamsVal"],
      note="all 8 standard parameter sets; hashes 0, FF..FF, q; r/s = 0, q; NOT proof"),
    G("roundtrip.dstu.search", "harness/C16/roundtrip.c", "h_dstu", SRC, level="N", backend="native", native_cflags=CF, search=300, timeout=1800,
      fn=["dstuPointGen", "dstuPointVal", "dstuPointCompress", "dstuPointRecover", "dstuKeypairGen", "dstuSign", "dstuVerify"],
      note="all 10 standard curves with a generated base point; signature lengths ld; NOT proof"),
    G("roundtrip.pfok.search", "harness/C16/roundtrip.c", "h_pfok", SRC, level="N", backend="native", native_cflags=CF, search=200, timeout=1800,
      fn=["pfokKeypairGen", "pfokPubkeyVal", "pfokPubkeyCalc", "pfokDH", "pfokMTI"],
      note="test parameters mostly, the three standard sets in one run out of 16; NOT proof"),
]
ENV96 = ["src/crypto/bign96.c", "src/crypto/bign/bign_lcl.c", "src/math/ww.c", "src/math/zz/zz_add.c", "src/math/zz/zz_mul.c", "src/crypto/belt/belt_compr.c",
         "src/math/ec.c", "src/math/ecp.c", "src/crypto/belt/belt_hash.c", "src/core/mem.c", "src/core/u64.c", "src/core/u32.c", "src/core/util.c"]
STRIP96 = {"crypto/bign96.c": ["bign96Start", "bign96Start_keep"], "bign/bign_lcl.c": ["bignStart", "bignStart_keep"], "zz/zz_mul.c": ["zzMul", "zzMod"],
           "math/ec.c": ["!_deep$|^ecNAFWidth$"], "math/ecp.c": ["!^ecpIsOnA_deep$"], "belt/belt_compr.c": ["!_deep$"],
           "belt/belt_hash.c": ["beltHash_keep", "beltHashStart", "beltHashStepH", "beltHashStepG", "beltHashStepG2", "beltHashStepV", "beltHashStepV2"]}
FN96 = dict(sign="bign96Sign", verify="bign96Verify", keypairgen="bign96KeypairGen", keypairval="bign96KeypairVal", pubkeyval="bign96PubkeyVal", pubkeycalc="bign96PubkeyCalc")
for f in ("sign", "verify", "keypairgen", "keypairval", "pubkeyval", "pubkeycalc"):
    GROUPS.append(G("flow96.%s" % f, "harness/C16/flow96.c", "h_" + f, ENV96, defs=["L=96"], stubs=["stubs/bign_env.c"], strip=STRIP96,
                    level="B", bound="l = 96 (operand size fixed, contents symbolic); callees below the function replaced by their contracts",
                    unwind=70, native=False, timeout=900, fn=[FN96[f]]))
ASSUMPTIONS = ["assumed contracts of the replaced callees (stubs/bign_env.c): bignStart lays out curve / field descriptions with order = params->q and modulus = params->p; "
               "qrFrom / qrTo, ecMulA, ecAddMulA, ecpIsOnA return arbitrary values (success flags nondeterministic); zzRandNZMod ensures 0 < k < mod on success; "
               "zzMod ensures r < mod; zzAddMod / zzSubMod require a, b < mod and ensure c < mod (their values are decided under C05); belt-hash is a transcript; "
               "blobCreate may fail; oidFromDER returns an arbitrary length or SIZE_MAX",
               "the state is one typed object of fixed capacity; its declared size is what the function requested, and each callee stack must fit below it (FITS); "
               "accesses of the function's own local variables beyond the declared size but inside the capacity are not flagged here (C07 exactblob.testsuite covers them natively)",
               "security level / operand size concrete per group; deterministic-signing model: at most three belt-wbl rounds"]
TRUSTED = ["stubs/bign_env.c", "harness/ref.h"]
NOT_COVERED = ["the algebra below the stubs: group law, field arithmetic, belt-hash, belt-wbl / KWP (C05, C01 and C06 territory)",
               "bign96Sign2: native search only",
               "g12s, dstu, pfok: native search only"]
