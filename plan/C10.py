from engine import G
LEVEL = "other"
LEVEL_TEXT = ("Relational contracts over the real Step functions: for every bundle, Step(x||y) == Step(x); [Get;] relocate; Step(y), for "
              "concrete fragment lengths covering every fill level of the internal buffer (B(N)), symbolic key/IV/contents, states in "
              "objects of exactly _keep() octets, the state moved to a fresh object and the old one overwritten between the fragments. "
              "Primitives (block function) are uninterpreted so both sides share them.")
BELT = ["src/crypto/belt/belt_%s.c" % m for m in ("ecb", "cbc", "cfb", "ctr", "mac", "dwp", "che", "hash", "hmac", "bde", "sde", "lcl", "compr", "block", "wbl", "kwp", "krp")] + \
       ["src/math/pp/pp_mul.c", "src/math/pp/pp_red.c", "src/math/pp/pp_etc.c", "src/math/ww.c", "src/core/mem.c", "src/core/util.c",
        "src/core/blob.c", "src/core/u32.c", "src/core/u64.c", "src/core/u16.c", "src/core/word.c"]
UF = {"crypto/belt/belt_block.c": ["beltBlockEncr", "beltBlockEncr2", "beltBlockEncr3", "beltBlockDecr", "beltBlockDecr2", "beltBlockDecr3"],
      "crypto/belt/belt_lcl.c": ["beltPolyMul"]}
GROUPS = []
def chunk(bundle, lx, ly, fns, tier="quick", lz=0, **kw):
    return G("belt.%s.x%d.y%d" % (bundle, lx, ly) + (".z%d" % lz if lz else ""), "harness/C10/belt_chunks.c", "h_" + bundle, BELT,
             stubs=["stubs/belt_uf.c"], strip=UF,
             defs=["LX=%d" % lx, "LY=%d" % ly, "LZ=%d" % lz], level="B", bound="fragment lengths |x| = %d, |y| = %d, |z| = %d octets" % (lx, ly, lz),
             unwind=lx + ly + 40, spec_unwind=lx + ly + 40, search=5000, split=True, timeout=900, tier=tier, fn=fns, **kw)
QX = (0, 1, 15, 16, 17, 33)
QY = (0, 1, 16, 17)
for b, fns in (("cfb_e", ["beltCFBStart", "beltCFBStepE"]), ("cfb_d", ["beltCFBStepD"]), ("ctr", ["beltCTRStart", "beltCTRStepE"]),
               ("mac", ["beltMACStart", "beltMACStepA", "beltMACStepG"])):
    for lx in QX:
        for ly in QY:
            GROUPS.append(chunk(b, lx, ly, fns, tier="quick" if (lx, ly) in ((1, 17), (16, 1), (17, 17)) else "thorough"))
    # three fragments: a short second fragment served from the buffered gamma / partial block, then a block boundary
    for lx, ly, lz in ((5, 3, 20), (17, 1, 16), (1, 15, 17), (10, 2, 4)):
        q3 = (b in ("cfb_e", "cfb_d", "ctr") and (lx, ly, lz) == (5, 3, 20)) or (b == "cfb_d" and (lx, ly, lz) == (17, 1, 16))
        GROUPS.append(chunk(b, lx, ly, fns, lz=lz, tier="quick" if q3 else "thorough", required=q3))
        GROUPS.append(G("belt.%s.x%d.y%d.z%d.search" % (b, lx, ly, lz), "harness/C10/belt_chunks.c", "h_" + b, BELT,
                        defs=["LX=%d" % lx, "LY=%d" % ly, "LZ=%d" % lz], level="N", backend="native", search=20000, fn=fns,
                        note="native run of the three-fragment harness; NOT proof"))
def chunk_native(bundle, lx, ly, fns):
    return G("belt.%s.x%d.y%d.search" % (bundle, lx, ly), "harness/C10/belt_chunks.c", "h_" + bundle, BELT, defs=["LX=%d" % lx, "LY=%d" % ly],
             level="N", backend="native", search=20000, fn=fns,
             note="native run of the same relational harness on the real primitives (ASan/UBSan, exact-size states); NOT proof")
# hash / hmac / dwp / che: the CBMC queries exhaust 8 GB (byte-level state with flexible array + two full runs); attempted in the
# thorough tier only, native runs stand in
for b, fns in (("hash", ["beltHashStart", "beltHashStepH", "beltHashStepG"]), ("hmac", ["beltHMACStart", "beltHMACStepA", "beltHMACStepG"])):
    for lx in (0, 1, 31, 32, 33):
        for ly in (0, 1, 32, 33):
            GROUPS.append(chunk_native(b, lx, ly, fns))
    GROUPS.append(chunk(b, 1, 33, fns, tier="thorough", required=False, mem_gb=24))
for b, fns in (("dwp", ["beltDWPStart", "beltDWPStepI", "beltDWPStepE", "beltDWPStepA", "beltDWPStepG", "beltDWPStepV", "beltDWPStepD"]),
               ("che", ["beltCHEStart", "beltCHEStepI", "beltCHEStepE", "beltCHEStepA", "beltCHEStepG", "beltCHEStepV", "beltCHEStepD"])):
    for lx in (0, 1, 16, 17):
        for ly in (0, 1, 17):
            GROUPS.append(chunk_native(b, lx, ly, fns))
    GROUPS.append(chunk(b, 1, 17, fns, tier="thorough", required=False, mem_gb=24))
for b, fns in (("ecb", ["beltECBStepE", "beltECBStepD"]), ("cbc", ["beltCBCStepE", "beltCBCStepD"]), ("bde", ["beltBDEStart", "beltBDEStepE", "beltBDEStepD"])):
    for lx in (16, 32):
        for ly in ((16, 32) if b == "bde" else (16, 17, 31, 33)):
            GROUPS.append(chunk(b, lx, ly, fns, tier="quick" if lx == 16 else "thorough"))
BASH = ["src/crypto/bash/bash_hash.c", "src/crypto/bash/bash_prg.c", "src/crypto/bash/bash_f.c", "src/core/mem.c", "src/core/util.c", "src/core/blob.c",
        "src/core/u64.c", "src/core/u32.c", "src/core/u16.c", "src/core/word.c"]
GROUPS.append(G("bash.hash.search", "harness/C10/bash_chunks.c", "h_bash_hash", BASH, level="N", backend="native", search=60000,
                fn=["bashHashStart", "bashHashStepH", "bashHashStepG", "bashHashStepV", "bashHash"],
                note="native: all 16 levels, fragment lengths straddling the rate, Get-then-continue, relocation; NOT proof"))
GROUPS.append(G("bash.prg.search", "harness/C10/bash_chunks.c", "h_bash_prg", BASH, level="N", backend="native", search=60000,
                fn=["bashPrgStart", "bashPrgAbsorbStep", "bashPrgEncrStep", "bashPrgDecrStep", "bashPrgSqueezeStep"],
                note="native: keyed automaton, (l, d) in {128,192,256} x {1,2}, commands in one call vs fragments, relocation, Decr o Encr; NOT proof"))
GROUPS.append(G("belt.frag3.search", "harness/C10/frag3.c", "h_frag3", BELT, level="N", backend="native", search=60000,
                fn=["beltCHEStepE", "beltCHEStepD", "beltCHEStepI", "beltCHEStepA", "beltDWPStepE", "beltDWPStepA", "beltCTRStepE", "beltCFBStepE", "beltCFBStepD",
                    "beltMACStepA", "beltHMACStepA", "beltHashStepH"],
                note="three fragments of generated lengths 0..50 each (small / block-completing lengths weighted) against the one-shot functions; NOT proof"))
GROUPS.append(G("gen.frag3.search", "harness/C10/frag_gen.c", "h_frag_gen", ["src/crypto/brng.c", "src/crypto/botp.c", "src/core/mem.c", "src/core/blob.c", "src/core/util.c"],
                level="N", backend="native", search=40000,
                fn=["brngCTRStepR", "brngCTRStepG", "brngHMACStepR", "botpHOTPStepR", "botpHOTPStepV", "botpHOTPStepG"],
                note="brng three-fragment generation against the one-shot functions; HOTP operation scripts against an independently tracked counter; NOT proof"))
TRUSTED = ["stubs/belt_uf.c: uninterpreted block function (both sides of every equality share it)"]
ASSUMPTIONS = ["two fragments from a freshly started state; a third fragment would start from a state of the same shape (fill level + symbolic chaining values)"]
NOT_COVERED = ["brng, botp bundles", "SDE and FMT bundles, KRP", "bash bundles only natively"]
