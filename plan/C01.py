from engine import G
LEVEL = "other"
LEVEL_TEXT = ("Mixed, per group: P/Pc = belt block function == STB 34.101.31 6.1 (8 rounds over the file's own G macros, z3), D(E(x)) == x, "
              "G-macros == RotHi^r(H...), H table == its generator, key expansion, beltBlockMulC, length-block additions -- all inputs.  B = ECB/CBC/CFB/CTR/MAC/BDE/WBL/SDE Start/Step functions == the "
              "standard's mode equations written over the same uninterpreted block function, and Decr o Encr == id, for every listed concrete "
              "message length (ragged tails, ciphertext stealing, all three key lengths), key/IV/contents symbolic, states of exactly _keep() octets.  "
              "X = beltFMTCalcB on its complete finite domain by native enumeration against exact big-integer powers.  N = native stand-ins (DWP "
              "against the standard incl. 'Unwrap accepts exactly the right tag', FMT round trip and error, octet interfaces).")
BELT = ["src/crypto/belt/belt_ecb.c", "src/crypto/belt/belt_cbc.c", "src/crypto/belt/belt_cfb.c", "src/crypto/belt/belt_ctr.c",
        "src/crypto/belt/belt_lcl.c", "src/core/mem.c", "src/core/util.c", "src/core/blob.c", "src/core/u32.c", "src/core/u64.c",
        "src/core/u16.c", "src/core/word.c"]
KEYX = ["src/crypto/belt/belt_block.c"]
UF = {"crypto/belt/belt_block.c": ["beltBlockEncr", "beltBlockEncr2", "beltBlockEncr3", "beltBlockDecr", "beltBlockDecr2", "beltBlockDecr3"],
      "crypto/belt/belt_lcl.c": ["beltPolyMul"]}
GROUPS = []
LENS = {"ecb": (16, 17, 31, 32, 33, 47, 48, 49), "cbc": (16, 17, 31, 32, 33, 47, 48, 49), "cfb": (0, 1, 15, 16, 17, 32, 33, 48, 49),
        "ctr": (0, 1, 15, 16, 17, 32, 33, 48, 49)}
for mode, lens in LENS.items():
    for cnt in lens:
        for kl in (16, 24, 32):
            if kl != 32 and cnt not in (17, 33):
                continue
            GROUPS.append(G("modes.%s.cnt%d.k%d" % (mode, cnt, kl), "harness/C01/modes.c", "h_" + mode, BELT + KEYX,
                            stubs=["stubs/belt_uf.c"], strip=UF, defs=["CNT=%d" % cnt, "KLEN=%d" % kl], level="B",
                            bound="message length %d octets, key %d octets; key/IV/contents symbolic; block function uninterpreted" % (cnt, kl),
                            unwind=cnt + 20, spec_unwind=cnt + 20, search=20000, split=True, timeout=600,
                            fn=["belt%sStart" % mode.upper(), "belt%sStepE" % mode.upper(), "belt%sStepD" % mode.upper(), "belt%s_keep" % mode.upper(), "beltKeyExpand2"]))
# belt-bde against the standard over the uninterpreted block function (round 3; was native-only in relations.*)
BDE = ["src/crypto/belt/belt_bde.c"] + BELT
GROUPS.append(G("modes.mulc", "harness/C01/modes.c", "h_mulc", BDE + KEYX, level="Pc", unwind=20, spec_unwind=20, search=20000, split=True, timeout=300,
                fn=["beltBlockMulC"], note="all 2^128 blocks; the spec loop runs over 16 octets"))
for cnt in (16, 32, 48, 64):
    for kl in (16, 24, 32):
        if kl != 32 and cnt != 32:
            continue
        GROUPS.append(G("modes.bde.cnt%d.k%d" % (cnt, kl), "harness/C01/modes.c", "h_bde", BDE + KEYX,
                        stubs=["stubs/belt_uf.c"], strip=UF, defs=["CNT=%d" % cnt, "KLEN=%d" % kl], level="B",
                        bound="message length %d octets, key %d octets; key/IV/contents symbolic; block function uninterpreted" % (cnt, kl),
                        unwind=cnt + 20, spec_unwind=cnt + 20, search=20000, split=True, timeout=600,
                        fn=["beltBDEStart", "beltBDEStepE", "beltBDEStepD", "beltBDE_keep", "beltBlockMulC", "beltKeyExpand2"],
                        note="beltBDEEncr / beltBDEDecr == the same spec only in the native search of this harness (N)"))
GROUPS.append(G("lcl.addbitsize", "harness/C01/modes.c", "h_addbitsize", BDE + KEYX, level="P", unwind=8, spec_unwind=8, search=200000, split=True, timeout=300,
                fn=["beltBlockAddBitSizeU32", "beltHalfBlockAddBitSizeW"],
                note="loop-free code, every 128-bit block x every size_t count (the carry into the second word needs 2^29 octets of input: unreachable for a run)"))
# belt-wbl (base and optimised paths) and belt-sde against the standard over the uninterpreted block function (round 3)
WBL = ["src/crypto/belt/belt_wbl.c", "src/crypto/belt/belt_sde.c"] + BELT
for mode, lens in (("wbl", (32, 33, 47, 48, 49, 64, 65, 80, 96)), ("sde", (32, 48, 64, 80))):
    for cnt in lens:
        for kl in (16, 24, 32):
            if kl != 32 and cnt != 48:
                continue
            GROUPS.append(G("modes.%s.cnt%d.k%d" % (mode, cnt, kl), "harness/C01/modes.c", "h_" + mode, WBL + KEYX,
                            stubs=["stubs/belt_uf.c"], strip=UF, defs=["CNT=%d" % cnt, "KLEN=%d" % kl], level="B",
                            bound="wide block of %d octets, key %d octets; key/IV/contents symbolic; block function uninterpreted" % (cnt, kl),
                            unwind=cnt + 20, spec_unwind=cnt + 20, search=20000, split=True, timeout=900,
                            tier="thorough" if (mode, cnt) in (("wbl", 96), ("sde", 80), ("sde", 32)) else "quick",
                            fn=(["beltWBLStart", "beltWBLStepE", "beltWBLStepD", "beltWBLStepEBase", "beltWBLStepEOpt", "beltWBLStepDBase", "beltWBLStepDOpt", "beltWBL_keep"]
                                + (["beltSDEStart", "beltSDEStepE", "beltSDEStepD", "beltSDE_keep"] if mode == "sde" else []))))
BLK = ["src/core/mem.c", "src/core/util.c", "src/core/u32.c", "src/core/u64.c", "src/core/u16.c", "src/core/word.c"]
def blk(name, entry, backend, fn, note, **kw):
    return G("block." + name, "harness/C01/block.c", entry, BLK, level=kw.pop("level", "P"), backend=backend, search=100000,
             extra=["--no-standard-checks"] if backend != "sat" else [], fn=fn, note=note, **kw)
GROUPS += [
    blk("g", "h_block_g", "sat", ["G5", "G13", "G21", "H5/H13/H21/H29 tables"], "all 2^32 arguments, three rotations", split=True, timeout=600),
    blk("h", "h_block_h", "sat", ["H table"], "256 entries against the generator", unwind=300, level="Pc", timeout=600),
    blk("spec", "h_block_spec", "portfolio", ["beltBlockEncr2", "beltBlockDecr2", "R/E/D macros"],
        "all blocks x all expanded keys; structure-aligned with the file's G macros (z3)", unwind=12, split=True, ndebug=True, timeout=900),
    blk("inverse", "h_block_inverse", "portfolio", ["beltBlockEncr2", "beltBlockDecr2"],
        "discharges the inverse axiom that stubs/belt_uf.c assumes", split=True, ndebug=True, timeout=900),
    blk("iface", "h_block_iface", "portfolio", ["beltBlockEncr", "beltBlockEncr3", "beltBlockDecr", "beltBlockDecr3"],
        "octet and four-word interfaces == u32[4] interface; attempted (byte-level view of the block defeats term-level reasoning: no answer in 900 s)",
        unwind=20, split=True, ndebug=True, timeout=1500, tier="thorough", required=False),
    G("block.iface.search", "harness/C01/block.c", "h_block_iface", BLK, level="N", backend="native", search=300000,
      fn=["beltBlockEncr", "beltBlockEncr3", "beltBlockDecr", "beltBlockDecr3"], note="native stand-in for the interface equalities; NOT proof"),
]
for kl in (16, 24, 32):
    GROUPS.append(G("keyexpand.k%d" % kl, "harness/C01/block.c", "h_keyexpand", BLK, defs=["KLEN=%d" % kl], level="Pc", unwind=40,
                    search=20000, fn=["beltKeyExpand", "beltKeyExpand2"], note="all keys of %d octets" % kl))
BELT2 = ["src/crypto/belt/belt_%s.c" % m for m in ("mac", "dwp", "ctr", "lcl", "block", "ecb", "cbc", "cfb")] + \
        ["src/math/pp/pp_mul.c", "src/math/pp/pp_red.c", "src/math/pp/pp_etc.c", "src/math/ww.c", "src/core/mem.c", "src/core/util.c",
         "src/core/blob.c", "src/core/u32.c", "src/core/u64.c", "src/core/u16.c", "src/core/word.c"]
UF2 = dict(UF)
for cnt in (0, 1, 15, 16, 17, 32, 33, 48):
    GROUPS.append(G("modes.mac.cnt%d" % cnt, "harness/C01/modes.c", "h_mac", BELT2, stubs=["stubs/belt_uf.c"], strip=UF2, defs=["CNT=%d" % cnt, "KLEN=32"],
                    level="B", bound="message length %d octets; key/contents symbolic; block function uninterpreted" % cnt,
                    unwind=cnt + 24, spec_unwind=cnt + 24, search=20000, split=True, timeout=900, fn=["beltMACStart", "beltMACStepA", "beltMACStepG", "beltMACStepV"]))
for li, cnt in ((0, 0), (0, 17), (5, 0), (5, 20), (16, 16), (21, 33), (32, 7), (40, 40)):
    GROUPS.append(G("modes.dwp.i%d.cnt%d.search" % (li, cnt), "harness/C01/modes.c", "h_dwp", BELT2, defs=["LI=%d" % li, "CNT=%d" % cnt, "KLEN=32"],
                    level="N", backend="native", search=20000, fn=["beltDWPStart", "beltDWPStepI", "beltDWPStepE", "beltDWPStepA", "beltDWPStepG", "beltDWPWrap", "beltDWPUnwrap"],
                    note="native run of the DWP spec harness on the real primitives; NOT proof"))
GROUPS.append(G("modes.dwp.i5.cnt20", "harness/C01/modes.c", "h_dwp", BELT2, stubs=["stubs/belt_uf.c"], strip=UF2, defs=["LI=5", "CNT=20", "KLEN=32"],
                level="B", bound="header 5, message 20 octets", unwind=60, spec_unwind=60, search=20000, split=True, timeout=1500, mem_gb=24,
                tier="thorough", required=False, fn=["beltDWPStepI", "beltDWPStepA", "beltDWPStepG"], note="attempted"))
FMT = ["src/crypto/belt/belt_wbl.c", "src/crypto/belt/belt_block.c", "src/crypto/belt/belt_lcl.c", "src/math/zz/zz_mul.c", "src/math/zz/zz_add.c",
       "src/math/ww.c", "src/core/mem.c", "src/core/util.c", "src/core/blob.c", "src/core/u32.c", "src/core/u64.c", "src/core/u16.c", "src/core/word.c"]
GROUPS += [
    G("fmt.table", "harness/C01/fmt.c", "h_fmt_table", FMT, level="X", backend="native", search=1, ndebug=True, timeout=1800,
      fn=["beltFMTCalcB", "beltFMT_keep"],
      note="level X: native exhaustive enumeration of the complete finite domain (65535 x 300 pairs) against exact big-integer powers; not a contract"),
    G("fmt.roundtrip.search", "harness/C01/fmt.c", "h_fmt_rt", FMT, level="N", backend="native", search=20000, fn=["beltFMTStart", "beltFMTStepE", "beltFMTStepD", "beltFMT_keep"],
      note="native: StepD o StepE == id on a state of exactly beltFMT_keep() octets; NOT proof"),
    G("fmt.err.search", "harness/C01/fmt.c", "h_fmt_err", FMT, level="N", backend="native", search=20000, fn=["beltFMTEncr", "beltFMTDecr"],
      note="native: out-of-range alphabet size is answered with ERR_BAD_INPUT; NOT proof"),
]
ALLBELT = ["src/crypto/belt/belt_%s.c" % m for m in ("kwp", "wbl", "che", "dwp", "bde", "sde", "ctr", "mac", "lcl", "block", "ecb", "cbc", "cfb")] + \
          ["src/core/mem.c", "src/core/blob.c", "src/core/util.c", "src/core/u32.c", "src/core/u64.c", "src/math/pp/pp_mul.c", "src/math/ww.c"]
GROUPS.append(G("relations.kwp_che_bde_sde.search", "harness/C01/relations.c", "h_relations", ALLBELT, level="N", backend="native", search=60000,
                fn=["beltKWPWrap", "beltKWPUnwrap", "beltCHEWrap", "beltCHEUnwrap", "beltDWPUnwrap", "beltBDEEncr", "beltBDEDecr", "beltSDEEncr", "beltSDEDecr"],
                note="inversion and single-bit alteration relations (token, tag, header, associated data, key, iv); NOT proof and not a standard-level spec"))
import importlib.util as _iu, os as _os
_sp = _iu.spec_from_file_location("plan_C10_for_C01", _os.path.join(_os.path.dirname(__file__), "C10.py"))
_c10 = _iu.module_from_spec(_sp); _sp.loader.exec_module(_c10)
GROUPS += [dict(g, name="steps." + g["name"]) for g in _c10.GROUPS if g["name"] == "belt.frag3.search"]
TRUSTED = ["stubs/belt_uf.c: uninterpreted block function with the inverse axiom (discharged separately on belt_block.c)"]
ASSUMPTIONS = ["mode, MAC and DWP specs are the author's rendering of STB 34.101.31; validated natively against the real code, which passes the standard's test vectors in the repository's suite"]
NOT_COVERED = ["CHE, WBL/KWP, hash, BDE/SDE, KRP, HMAC, PBKDF2 against the standard (only relations in C10/C11/C09)", "DWP under CBMC (attempted only)"]
