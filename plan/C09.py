from engine import G
LEVEL = "other"
LEVEL_TEXT = ("Contract of each high-level belt function checked on its real body: ERR_BAD_INPUT for key/data lengths outside the documented domain "
              "with outputs untouched; ERR_OUTOFMEMORY exactly when an allocation fails (failure ordinal nondeterministic: all n at once); no allocation "
              "left behind; no unauthenticated plaintext/key released by the Unwrap functions; and (C15) every released block wiped over its whole size "
              "-- the last two through ghost state in the allocator contracts of stubs/mem_ghost.c.  Data length concrete per group, key length symbolic.")
BELT = ["src/crypto/belt/belt_%s.c" % m for m in ("ecb", "cbc", "cfb", "ctr", "bde", "sde", "mac", "hmac", "hash", "compr", "kwp", "wbl", "dwp", "che", "lcl", "block")] + \
       ["src/math/pp/pp_mul.c", "src/math/pp/pp_red.c", "src/math/pp/pp_etc.c", "src/math/ww.c",
        "src/core/mem.c", "src/core/util.c", "src/core/blob.c", "src/core/u32.c", "src/core/u64.c", "src/core/u16.c", "src/core/word.c"]
UF = {"crypto/belt/belt_block.c": ["beltBlockEncr", "beltBlockEncr2", "beltBlockEncr3", "beltBlockDecr", "beltBlockDecr2", "beltBlockDecr3"],
      "crypto/belt/belt_lcl.c": ["beltPolyMul"], "core/mem.c": ["memAlloc", "memFree", "memWipe"]}
FN = {"ecb_e": "beltECBEncr", "ecb_d": "beltECBDecr", "cbc_e": "beltCBCEncr", "cbc_d": "beltCBCDecr", "cfb_e": "beltCFBEncr", "cfb_d": "beltCFBDecr",
      "ctr": "beltCTR", "bde_e": "beltBDEEncr", "bde_d": "beltBDEDecr", "sde_e": "beltSDEEncr", "sde_d": "beltSDEDecr", "mac": "beltMAC",
      "hmac": "beltHMAC", "hash": "beltHash", "kwp_w": "beltKWPWrap", "kwp_u": "beltKWPUnwrap", "dwp_u": "beltDWPUnwrap", "che_u": "beltCHEUnwrap"}
CB = ("ecb_e", "ecb_d", "cbc_e", "cbc_d", "kwp_w", "kwp_u")     # CBMC-tractable (measured); cfb/ctr: no answer in 900 s under load
GROUPS = []
for f, fn in FN.items():
    for cnt in (15, 17, 32, 48):
        GROUPS.append(G("hl.%s.cnt%d.search" % (f, cnt), "harness/C09/hl_belt.c", "h_" + f, [s for s in BELT if not s.endswith("core/mem.c")],
                        defs=["CNT=%d" % cnt], level="N", backend="native", search=40000, fn=[fn, "blobCreate", "blobClose"],
                        native_srcs=[s for s in BELT if not s.endswith("core/mem.c")] + ["@stubs/mem_ghost.c"],
                        note="native run with allocation-failure injection and wipe tracking (real primitives, ASan); NOT proof"))
    if f in CB:
        for cnt in (15, 33):
            GROUPS.append(G("hl.%s.cnt%d" % (f, cnt), "harness/C09/hl_belt.c", "h_" + f, BELT, stubs=["stubs/belt_uf.c", "stubs/mem_ghost.c"], strip=UF,
                            defs=["CNT=%d" % cnt], level="B", bound="data length %d octets; key length, failure ordinal and contents symbolic" % cnt,
                            unwind=80, spec_unwind=90, search=40000, split=True, timeout=1200, mem_gb=16, fn=[fn, "blobCreate", "blobClose"],
                            native_srcs=[s for s in BELT if not s.endswith("core/mem.c")] + ["@stubs/mem_ghost.c"]))
MORE = ["src/crypto/bels.c", "src/crypto/brng.c", "src/crypto/botp.c", "src/crypto/bash/bash_hash.c", "src/crypto/bash/bash_f.c",
        "src/crypto/belt/belt_krp.c", "src/crypto/belt/belt_pbkdf.c", "src/crypto/belt/belt_hmac.c", "src/crypto/belt/belt_hash.c", "src/core/blob.c"]
for ent, fns in (("h_bels", ["belsShare3", "belsShare2", "belsRecover2"]), ("h_kdf", ["beltKRP", "beltPBKDF2"]),
                 ("h_rng_otp", ["brngCTRRand", "brngHMACRand", "botpHOTPRand", "bashHash"])):
    GROUPS.append(G("hl2.%s.search" % ent[2:], "harness/C09/hl_more.c", ent, MORE, level="N", backend="native", search=60000, fn=fns,
                    native_srcs=MORE + ["@stubs/mem_ghost.c"],
                    note="native run with allocation-failure injection and wipe tracking; NOT proof"))
import importlib.util as _iu, os as _os
_sp = _iu.spec_from_file_location("plan_C02_for_C09", _os.path.join(_os.path.dirname(__file__), "C02.py"))
_c02 = _iu.module_from_spec(_sp); _sp.loader.exec_module(_c02)
GROUPS += [dict(g, name="bign." + g["name"]) for g in _c02.GROUPS if g["name"] == "roundtrip.search"]
TRUSTED = ["stubs/mem_ghost.c: allocator contracts with ghost state (memAlloc / memFree / memWipe)", "stubs/belt_uf.c"]
ASSUMPTIONS = ["errors that depend on number-theoretic verdicts are out of scope of these groups"]
NOT_COVERED = ["bign, bign96, btok, bpki, bake high-level functions; bash/brng/botp/bels only natively (hl2.*)", "scalar arguments other than key and data length (level, alphabet size: see C01 fmt.err)"]
