from engine import G

LEVEL = "other"
LEVEL_TEXT = ("Each decoder is run on a heap object of exactly `count` octets with count symbolic in 0..CMAX and contents symbolic; "
              "CBMC decides for ALL such inputs: no access outside the object, result SIZE_MAX or <= count, accepted input re-encodes "
              "to the accepted octets, encoders are inverted by decoders. T/L loops are bounded by 4 and 9 octets (Pc); payload "
              "loops by CMAX (B).")
DER = ["src/core/mem.c", "src/core/str.c", "src/core/oid.c", "src/core/util.c", "src/core/word.c", "src/core/u16.c",
       "src/core/u32.c", "src/core/u64.c"]
NDER = [s for s in DER] 
GROUPS = []
def der(name, entry, cmax, fn, **kw):
    return G("der.%s.c%d" % (name, cmax), "harness/C08/der.c", entry, DER, defs=["CMAX=%d" % cmax], level=kw.pop("level", "B"),
             bound="input length 0..%d octets (symbolic), contents symbolic" % cmax, unwind=cmax + 12, spec_unwind=cmax + 12,
             search=200000, split=True, fn=fn, timeout=900, **kw)
GROUPS += [
    der("tl", "h_der_tl", 14, ["derTDec", "derTEnc", "derLDec", "derLEnc", "derTLDec", "derTLEnc", "derStartsWith", "derTIsValid"], level="Pc",
        note="T and L codecs read at most 4 + 9 octets: input lengths 0..14 cover every case (complete)"),
    G("der.tl_enc", "harness/C08/der.c", "h_der_tl_enc", DER, level="Pc", unwind=12, spec_unwind=12, search=200000, split=True,
      fn=["derTLEnc", "derTLDec"], note="every u32 tag x every size_t length (loops bounded by 4 / 9 octets)"),
    der("dec", "h_der_dec", 14, ["derDec", "derDec2", "derDec3", "derDec4", "derEnc", "derIsValid", "derIsValid2"]),
    der("size", "h_der_size", 14, ["derTSIZEDec", "derTSIZEDec2", "derTSIZEEnc"]),
    der("uint", "h_der_uint", 12, ["derTUINTDec", "derTUINTDec2", "derTUINTEnc"]),
    G("der.uint_enc", "harness/C08/der.c", "h_der_uint_enc", DER, level="B", bound="value length 1..6 octets", unwind=14,
      spec_unwind=14, search=200000, split=True, fn=["derTUINTEnc", "derTUINTDec"]),
    der("bit", "h_der_bit", 12, ["derTBITDec", "derTBITDec2", "derTBITEnc"]),
    der("oct", "h_der_oct", 12, ["derTOCTDec", "derTOCTDec2"]),
    der("pstr", "h_der_pstr", 10, ["derTPSTRDec", "derTPSTREnc"]),
    der("oid", "h_der_oid", 6, ["derOIDDec", "oidIsValid"], unwindset=["strlen.0:72", "strLen.0:72"],
        note="totality, bounds, termination of the string, validity of the produced OID string"),
    G("der.oid_canon.c6", "harness/C08/der.c", "h_der_oid", DER, defs=["CMAX=6", "OID_CANON"], level="B", backend="portfolio",
      bound="input length 0..6", unwind=18, spec_unwind=18, search=300000, split=True, tier="thorough", required=False, timeout=1200,
      fn=["derOIDDec2", "derOIDEnc"], note="attempted: decimal round trip"),
    G("der.oid_canon.search", "harness/C08/der.c", "h_der_oid", DER, defs=["CMAX=12"], level="N", backend="native", search=1500000,
      fn=["derOIDDec", "derOIDDec2", "derOIDEnc"], note="native search stand-in for the OID re-encoding obligations; NOT proof"),
]
APDU = ["src/core/apdu.c", "src/core/mem.c", "src/core/util.c", "src/core/word.c", "src/core/u16.c", "src/core/u32.c", "src/core/u64.c"]
GROUPS += [
    G("apdu.cmd_dec.c12", "harness/C08/apdu.c", "h_apdu_cmd_dec", APDU, defs=["CMAX=12"], level="B", bound="input length 0..12 octets (symbolic)",
      unwind=24, spec_unwind=24, search=400000, split=True, timeout=900, fn=["apduCmdDec", "apduCmdEnc", "apduCmdIsValid"]),
    G("apdu.resp_dec.c8", "harness/C08/apdu.c", "h_apdu_resp_dec", APDU, defs=["CMAX=8"], level="B", bound="input length 0..8 octets (symbolic)",
      unwind=20, spec_unwind=20, search=200000, split=True, timeout=900, fn=["apduRespDec", "apduRespEnc", "apduRespIsValid"]),
]
for cdf in (0, 1, 255, 256):
    GROUPS.append(G("apdu.cmd_enc.cdf%d" % cdf, "harness/C08/apdu.c", "h_apdu_cmd_enc", APDU, defs=["CDF=%d" % cdf], level="B",
                    bound="cdf_len = %d (short/extended Lc boundary), every rdf_len 0..65536, all header and data octets" % cdf,
                    unwind=cdf + 12, spec_unwind=cdf + 12, search=300000, split=True, timeout=900, tier="quick" if cdf < 255 else "thorough",
                    fn=["apduCmdEnc", "apduCmdDec"]))
    if cdf >= 255:
        GROUPS.append(G("apdu.cmd_enc.cdf%d.search" % cdf, "harness/C08/apdu.c", "h_apdu_cmd_enc", APDU, defs=["CDF=%d" % cdf], level="N",
                        backend="native", search=300000, fn=["apduCmdEnc", "apduCmdDec"], note="native stand-in for the long-Lc forms; NOT proof"))
STR = ["src/core/hex.c", "src/core/b64.c", "src/core/dec.c", "src/core/str.c", "src/core/mem.c", "src/core/util.c", "src/core/word.c", "src/core/u16.c", "src/core/u32.c", "src/core/u64.c"]
STR += ["src/core/oid.c", "src/core/der.c"]
for ent, fns, lens in (("h_oid", ["oidIsValid", "oidToDER", "oidFromDER"], (3, 5, 12)), ("h_hex", ["hexIsValid", "hexTo", "hexToRev", "hexFrom", "hexFromRev", "hexEq", "hexEq_fast", "hexEqRev", "hexEqRev_fast"], (0, 1, 2, 5, 6)),
                       ("h_b64", ["b64IsValid", "b64To", "b64From"], (0, 3, 4, 7, 8)),
                       ("h_dec", ["decIsValid", "decCLZ", "decToU32", "decFromU32", "decLuhnCalc", "decLuhnVerify", "decDammCalc", "decDammVerify"], (1, 4, 9))):
    for ln in lens:
        GROUPS.append(G("str.%s.len%d" % (ent[2:], ln), "harness/C08/strcodecs.c", ent, STR, defs=["SLEN=%d" % ln, "CNT=%d" % ((ln + 1) // 2 + 1)], level="B",
                        bound="string length %d characters (all contents), exact-size objects" % ln, unwind=ln + 16, spec_unwind=ln + 16,
                        unwindset=["strlen.0:%d" % (2 * ln + 16), "strLen.0:%d" % (2 * ln + 16), "strcmp.0:%d" % (2 * ln + 16)],
                        search=100000, split=True, timeout=900, fn=fns, tier="thorough" if (ent == "h_dec" and ln == 9) else "quick"))
        GROUPS.append(G("str.%s.len%d.search" % (ent[2:], ln), "harness/C08/strcodecs.c", ent, STR, defs=["SLEN=%d" % ln, "CNT=%d" % ((ln + 1) // 2 + 1)],
                        level="N", backend="native", search=100000, fn=fns, note="native run of the same harness (incl. the decimal round trips that get no solver answer); NOT proof"))
TRUSTED = ["CBMC's models of memmove/memcpy/strchr/strlen"]
ASSUMPTIONS = ["output buffers are sized by the decoder's own length probe (len = dec(NULL,...), then dec(buf of exactly len,...)), as der.h prescribes"]
NOT_COVERED = ["inputs longer than the stated CMAX", "bpki / CVC / bign parameter containers (modular composition not built yet)"]
