from engine import G
import importlib.util, os
def _load(name):
    sp = importlib.util.spec_from_file_location("plan_%s_for_C19" % name, os.path.join(os.path.dirname(__file__), name + ".py"))
    m = importlib.util.module_from_spec(sp); sp.loader.exec_module(m); return m
LEVEL = "other"
LEVEL_TEXT = ("A contract whose postcondition determines the outputs uniquely (value specs of C05, codec lemmas of C08, counters of C03, date validator "
              "of C12, automaton of C20, block cipher / modes of C01) is discharged again in the other build configurations: B_PER_W = 32 "
              "(goto-cc -m32), SAFE_FAST, NDEBUG.  Equal functional contracts in every configuration => equal outputs.  Optimisation levels and "
              "SIMD bash-f variants are outside CBMC's reach (C semantics only).")
PICK = {"C05": ("zz_add.n2.alias0", "zz_add.n2.alias1", "zz_mod.n2.alias0", "ww_basic.n2.m1", "ww_basic.n3.m3", "ww_bits.n2", "ww_shift.n2", "mem.cnt9", "mem.cnt19",
                "uxx.w32", "uxx.w64", "uxx_fromto.w32.cnt5"),
        "C08": ("der.tl.c14", "der.tl_enc", "der.size.c14"),
        "C03": ("brng_inc", "botp.mac32"),
        "C12": ("date_yymmdd",),
        "C20": ("step", "history_inductive"),
        "C01": ("block.g", "keyexpand.k24", "modes.cbc.cnt33.k32", "modes.ctr.cnt33.k32", "modes.mac.cnt17", "fmt.table", "lcl.addbitsize", "modes.mulc", "modes.bde.cnt32.k32", "modes.wbl.cnt64.k32")}
GROUPS = []
for pid, names in PICK.items():
    plan = _load(pid)
    for g in plan.GROUPS:
        if g["name"] in names and g["backend"] == "native":
            # native enumeration: assertion-enabled and release build of the same source must give the same table
            for cfg, kw in (("debug", dict(ndebug=False)), ("ndebug", dict(ndebug=True)), ("fast", dict(fast=True, ndebug=True))):
                g2 = dict(g); g2.update(kw); g2["name"] = "%s.%s.%s" % (cfg, pid, g["name"])
                g2["note"] = "configuration %s of group %s/%s" % (cfg, pid, g["name"]); g2["tier"] = "quick"
                GROUPS.append(g2)
        elif g["name"] in names:
            for cfg, kw in (("m32", dict(arch=32, native=False, search=0)), ("fast", dict(fast=True)), ("ndebug", dict(ndebug=True)),
                            ("m32fast", dict(arch=32, fast=True, native=False, search=0))):
                if cfg == "m32fast" and pid not in ("C05",):
                    continue
                if cfg in ("m32", "m32fast") and g["name"] in ("uxx.w64", "modes.mac.cnt17"):
                    pass
                g2 = dict(g); g2.update(kw); g2["name"] = "%s.%s.%s" % (cfg, pid, g["name"])
                g2["note"] = "configuration %s of group %s/%s" % (cfg, pid, g["name"])
                g2["tier"] = "quick" if cfg in ("m32", "fast") else "thorough"
                GROUPS.append(g2)
TRUSTED = ["shim32/gnu/stubs-32.h: empty header that lets goto-cc -m32 parse glibc headers (no 32-bit libc is installed); the 32-bit configuration is verified, not executed"]
ASSUMPTIONS = ["little-endian target in every configuration"]
NOT_COVERED = ["-O0..-O3 machine code", "BASH_32 / SSE2 / AVX2 / AVX-512 / NEON bash-f variants", "functions whose contract here is safety-only or native-only"]
