from engine import G
LEVEL = "other"
LEVEL_TEXT = ("The date validators are loop-free: their contract (result == Gregorian rule; YYMMDD additionally requires six decimal "
              "digits) is decided for every input. Parameter, key, primality and irreducibility validators are NOT covered: their "
              "verdicts rest on modular exponentiation / polynomial arithmetic that no installed back end decides.")
SRC = ["src/core/tm.c", "src/core/mem.c", "src/core/util.c"]
GROUPS = [
    G("date_yymmdd", "harness/C12/date.c", "h_date", SRC, defs=["DATE2_ONLY"], level="P", search=500000, timeout=600,
      fn=["tmDateIsValid2", "tmDateIsValid"], note="all 2^48 six-octet strings"),
    G("date_ymd", "harness/C12/date.c", "h_date", SRC, defs=["DATE1_ONLY"], level="P", search=500000, timeout=600, backend="portfolio",
      extra=["--no-standard-checks"], fn=["tmDateIsValid"], note="all size_t (y, m, d): 64-bit remainders by 4/100/400, decided by SMT"),
]
TRUSTED = []
ASSUMPTIONS = []
NOT_COVERED = ["bignParamsVal, bignPubkeyVal, bignKeypairVal and the g12s/stb99/dstu/pfok/bels validators (guard-structure contracts not built)",
               "priIsPrime, priRMTest, priNextPrime, ppIsIrred, ecpIsValid, ecpIsSafeGroup: correctness of the verdict is number theory"]
