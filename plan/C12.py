from engine import G
LEVEL = "other"
LEVEL_TEXT = ("The date validators are loop-free: their contract (result == Gregorian rule; YYMMDD additionally requires six decimal "
              "digits) is decided for every input. bignPubkeyVal / bignKeypairVal: flow contracts over callee contracts. Word-size primality, "
              "next-prime and small-degree irreducibility: exhaustive native windows (enumeration, not contracts). Parameter validators and "
              "multi-word number theory are NOT covered.")
SRC = ["src/core/tm.c", "src/core/mem.c", "src/core/util.c"]
GROUPS = [
    G("date_yymmdd", "harness/C12/date.c", "h_date", SRC, defs=["DATE2_ONLY"], level="P", search=500000, timeout=600,
      fn=["tmDateIsValid2", "tmDateIsValid"], note="all 2^48 six-octet strings"),
    G("date_ymd", "harness/C12/date.c", "h_date", SRC, defs=["DATE1_ONLY"], level="P", search=500000, timeout=600, backend="portfolio",
      extra=["--no-standard-checks"], fn=["tmDateIsValid"], note="all size_t (y, m, d): 64-bit remainders by 4/100/400, decided by SMT"),
]
NUM = ["src/math/pri.c", "src/math/pp/pp_etc.c", "src/math/pp/pp_mod.c", "src/math/pp/pp_mul.c", "src/math/pp/pp_red.c", "src/math/pp/pp_gcd.c",
       "src/math/zz/zz_pow.c", "src/math/zz/zz_mod.c", "src/math/zz/zz_mul.c", "src/math/zz/zz_add.c", "src/math/zz/zz_etc.c", "src/math/ww.c", "src/core/mem.c"]
GROUPS += [
    G("numbers.primes_window", "harness/C12/numbers.c", "h_primes_window", NUM, level="X", backend="native", search=1, ndebug=True, timeout=1800,
      fn=["priIsPrimeW", "priIsPrime", "priRMTest", "priNextPrimeW"],
      note="level X: every a < 2^18, the windows 2^32 +- 3000 and the top 3000 64-bit values, Carmichael numbers and strong pseudoprimes, against a deterministic Miller-Rabin oracle; not a contract"),
    G("numbers.primes_random.search", "harness/C12/numbers.c", "h_primes_random", NUM, level="N", backend="native", search=300000,
      fn=["priIsPrimeW", "priIsPrime", "priRMTest", "priNextPrimeW"], note="generated 64-bit values against the oracle; NOT proof"),
    G("numbers.nextprime_window", "harness/C12/numbers.c", "h_nextprime_window", NUM, level="X", backend="native", search=1, ndebug=True, timeout=1800,
      fn=["priNextPrime", "priIsSieved", "priRMTest"],
      note="level X: every a < 2^13 x six factor-base sizes x n in {1, 2} against the oracle; not a contract"),
    G("params.alter.search", "harness/C12/params.c", "h_params_alter", ["src/crypto/bign/bign_params.c", "src/crypto/bign/bign_lcl.c", "src/crypto/bign96.c"],
      level="N", backend="native", search=400, timeout=1800, fn=["bignParamsVal", "bign96ParamsVal"],
      note="standard bign / bign96 parameters with a single-bit alteration of p, a, b, seed, q, yG, or yG replaced by p - yG: must be rejected; NOT proof"),
    G("numbers.irred_window", "harness/C12/numbers.c", "h_irred_window", NUM, level="X", backend="native", search=1, ndebug=True, timeout=1800,
      fn=["ppIsIrred"], note="level X: every binary polynomial of degree 1..13 against trial division; not a contract"),
]
import importlib.util, os
_sp = importlib.util.spec_from_file_location("plan_C02_for_C12", os.path.join(os.path.dirname(__file__), "C02.py"))
_c02 = importlib.util.module_from_spec(_sp); _sp.loader.exec_module(_c02)
GROUPS += [g for g in _c02.GROUPS if g["name"].startswith(("flow.pubkeyval", "flow.keypairval", "roundtrip"))]
TRUSTED = []
ASSUMPTIONS = []
NOT_COVERED = ["the g12s/stb99/dstu/pfok/bels parameter validators; bignParamsVal only by native alteration search",
               "priIsPrime / priRMTest / priNextPrime beyond one word and ppIsIrred beyond degree 13; ecpIsValid, ecpIsSafeGroup: correctness of the verdict is number theory"]
