/*
 * Contract of btokPwdTransition (src/crypto/btok/btok_pwd.c), carried by a separate
 * declaration and enforced with goto-instrument --enforce-contract
 * btokPwdTransition/c_btokPwdTransition.  Frame: only *state.  Postcondition: the
 * single-step rules of property C20 (harness/C20/spec_pwd.h).
 */
#include "bee2/crypto/btok.h"
#include "harness/C20/spec_pwd.h"

bool_t c_btokPwdTransition(btok_pwd_state* state, btok_pwd_event event)
__CPROVER_requires(__CPROVER_rw_ok(state, sizeof(*state)))
__CPROVER_requires(REACH((unsigned)state->pin, (unsigned)state->auth))
__CPROVER_assigns(*state)
__CPROVER_ensures(RULES_STEP((int)event, __CPROVER_return_value,
	(unsigned)__CPROVER_old(state->pin), (unsigned)__CPROVER_old(state->auth),
	(unsigned)state->pin, (unsigned)state->auth))
;
