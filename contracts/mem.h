/* Contracts of src/core/mem.c for arbitrary count (unbounded; loop contracts in
   plan/C07.py): every buffer is an object of exactly count octets. */
#include "contracts/common.h"
#include "bee2/core/mem.h"
#define CMAXO ((size_t)1 << 24)
/* writers whose cursor is a parameter: the loop havoc of "the rest of the object" is byte-wise; capped lower */
#define CMAXW ((size_t)1 << 10)

void c_memNeg(void* buf, size_t count)
__CPROVER_requires(count <= CMAXW && FRESH_O(buf, count)) __CPROVER_assigns(WHOLE(buf));
#define P2(name, lo, hi) \
int c_##name(const void* buf1, const void* buf2, size_t count) \
__CPROVER_requires(count <= CMAXO && FRESH_O(buf1, count) && FRESH_O(buf2, count)) __CPROVER_assigns() \
__CPROVER_ensures(RET >= lo && RET <= hi);
P2(memEq, 0, 1) P2(memEq_fast, 0, 1) P2(memCmp, -1, 1) P2(memCmp_fast, -1, 1) P2(memCmpRev, -1, 1) P2(memCmpRev_fast, -1, 1)
bool_t c_memIsZero(const void* buf, size_t count)
__CPROVER_requires(count <= CMAXO && FRESH_O(buf, count)) __CPROVER_assigns() __CPROVER_ensures(RET == 0 || RET == 1);
bool_t c_memIsZero_fast(const void* buf, size_t count)
__CPROVER_requires(count <= CMAXO && FRESH_O(buf, count)) __CPROVER_assigns() __CPROVER_ensures(RET == 0 || RET == 1);
size_t c_memNonZeroSize(const void* buf, size_t count)
__CPROVER_requires(count <= CMAXO && FRESH_O(buf, count)) __CPROVER_assigns() __CPROVER_ensures(RET <= count);
bool_t c_memIsRep(const void* buf, size_t count, octet o)
__CPROVER_requires(count <= CMAXO && FRESH_O(buf, count)) __CPROVER_assigns() __CPROVER_ensures(RET == 0 || RET == 1);
bool_t c_memIsRep_fast(const void* buf, size_t count, octet o)
__CPROVER_requires(count <= CMAXO && FRESH_O(buf, count)) __CPROVER_assigns() __CPROVER_ensures(RET == 0 || RET == 1);
void c_memXor(void* dest, const void* src1, const void* src2, size_t count)
__CPROVER_requires(count <= CMAXW && FRESH_O(dest, count) && FRESH_O(src1, count) && FRESH_O(src2, count)) __CPROVER_assigns(WHOLE(dest));
void c_memXor2(void* dest, const void* src, size_t count)
__CPROVER_requires(count <= CMAXW && FRESH_O(dest, count) && FRESH_O(src, count)) __CPROVER_assigns(WHOLE(dest));
void c_memSwap(void* buf1, void* buf2, size_t count)
__CPROVER_requires(count <= CMAXW && FRESH_O(buf1, count) && FRESH_O(buf2, count)) __CPROVER_assigns(WHOLE(buf1), WHOLE(buf2));
void c_memRev(void* buf, size_t count)
__CPROVER_requires(count <= CMAXO && FRESH_O(buf, count)) __CPROVER_assigns(WHOLE(buf));
void c_memWipe(void* buf, size_t count)
__CPROVER_requires(count <= CMAXO && FRESH_O(buf, count)) __CPROVER_assigns(WHOLE(buf));
