/* Contracts for the word-by-array kernels of zz_mul.c, the regularisation primitives of
   zz_etc.c and the additive modular functions of zz_mod.c, arbitrary n.  Safety, frame,
   termination.  The zz_mod.c groups are compiled with NDEBUG: their value preconditions
   (a < mod, ...) cannot be stated for symbolic n without quantifiers, so the library's
   ASSERTs are not obligations there (they are in the bounded C05 zz_mod groups). */
#include "contracts/common.h"
#include "bee2/math/zz.h"
extern void zzAddAndW(word b[], const word a[], size_t n, register word w);
extern word zzSubAndW(word b[], const word a[], size_t n, register word w);

#define BAW(name, post) \
word c_##name(word b[], const word a[], size_t n, word w) \
__CPROVER_requires(n <= NMAX && FRESH_W(a, n) && FRESH_W(b, n)) __CPROVER_assigns(WHOLE(b)) post;
BAW(zzMulW, ) BAW(zzAddMulW, ) BAW(zzSubMulW, ) BAW(zzSubAndW, __CPROVER_ensures(RET <= 1))
void c_zzAddAndW(word b[], const word a[], size_t n, word w)
__CPROVER_requires(n <= NMAX && FRESH_W(a, n) && FRESH_W(b, n)) __CPROVER_assigns(WHOLE(b));

void c_zzMul(word c[], const word a[], size_t n, const word b[], size_t m, void* stack)
__CPROVER_requires(n <= 4096 && m <= 4096 && FRESH_W(a, n) && FRESH_W(b, m) && FRESH_W(c, n + m)) __CPROVER_assigns(WHOLE(c));
void c_zzSqr(word b[], const word a[], size_t n, void* stack)
__CPROVER_requires(n <= 4096 && FRESH_W(a, n) && FRESH_W(b, n + n)) __CPROVER_assigns(WHOLE(b));

#define MOD3(name) \
void c_##name(word c[], const word a[], const word b[], const word mod[], size_t n) \
__CPROVER_requires(n <= NMAX && FRESH_W(a, n) && FRESH_W(b, n) && FRESH_W(c, n) && FRESH_W(mod, n)) __CPROVER_assigns(WHOLE(c));
MOD3(zzAddMod) MOD3(zzSubMod) MOD3(zzAddMod_fast) MOD3(zzSubMod_fast)
#define MODW(name) \
void c_##name(word b[], const word a[], word w, const word mod[], size_t n) \
__CPROVER_requires(n <= NMAX && FRESH_W(a, n) && FRESH_W(b, n) && FRESH_W(mod, n)) __CPROVER_assigns(WHOLE(b));
MODW(zzAddWMod) MODW(zzSubWMod) MODW(zzAddWMod_fast) MODW(zzSubWMod_fast)
#define MOD2(name, pre) \
void c_##name(word b[], const word a[], const word mod[], size_t n) \
__CPROVER_requires(n <= NMAX && pre && FRESH_W(a, n) && FRESH_W(b, n) && FRESH_W(mod, n)) __CPROVER_assigns(WHOLE(b));
MOD2(zzNegMod, 1) MOD2(zzNegMod_fast, 1) MOD2(zzDoubleMod, 1) MOD2(zzDoubleMod_fast, 1)
/* zzHalfMod: n > 0 (zz.h: mod[n - 1] != 0) */
MOD2(zzHalfMod, n > 0) MOD2(zzHalfMod_fast, n > 0)
