/* zz_calc.h -- "keep/deep calculus" contracts: the MEMORY side of callee contracts.
   When a caller's stack layout is verified, a heavy callee is replaced by this contract:
   its requires clauses (checked at the call site) ask for every buffer at its documented
   size and for a scratch stack of callee_deep(args) octets; its body is abstracted to a
   havoc of the documented outputs.  Value preconditions of the callee are not asked here
   (an abstracted predecessor may have produced arbitrary values); they are obligations
   where the callee's real body runs (C05 harnesses, native runs). */
#include "contracts/common.h"
#include "bee2/math/zz.h"

void c_zzDiv(word q[], word r[], const word a[], size_t n, const word b[], size_t m, void* stack)
__CPROVER_requires(__CPROVER_r_ok(a, n * sizeof(word)) && __CPROVER_r_ok(b, m * sizeof(word)))
__CPROVER_requires(__CPROVER_w_ok(q, (n - m + 1) * sizeof(word)) && __CPROVER_w_ok(r, m * sizeof(word)))
__CPROVER_requires(__CPROVER_w_ok(stack, zzDiv_deep(n, m)))
__CPROVER_assigns(__CPROVER_object_upto(q, (n - m + 1) * sizeof(word)), __CPROVER_object_upto(r, m * sizeof(word)));

void c_zzMod(word r[], const word a[], size_t n, const word b[], size_t m, void* stack)
__CPROVER_requires(__CPROVER_r_ok(a, n * sizeof(word)) && __CPROVER_r_ok(b, m * sizeof(word)))
__CPROVER_requires(__CPROVER_w_ok(r, m * sizeof(word)))
__CPROVER_requires(__CPROVER_w_ok(stack, zzMod_deep(n, m)))
__CPROVER_assigns(__CPROVER_object_upto(r, m * sizeof(word)));

void c_zzMul(word c[], const word a[], size_t n, const word b[], size_t m, void* stack)
__CPROVER_requires(__CPROVER_r_ok(a, n * sizeof(word)) && __CPROVER_r_ok(b, m * sizeof(word)))
__CPROVER_requires(__CPROVER_w_ok(c, (n + m) * sizeof(word)))
__CPROVER_requires(__CPROVER_w_ok(stack, zzMul_deep(n, m)))
__CPROVER_assigns(__CPROVER_object_upto(c, (n + m) * sizeof(word)));

void c_zzSqr(word b[], const word a[], size_t n, void* stack)
__CPROVER_requires(__CPROVER_r_ok(a, n * sizeof(word)))
__CPROVER_requires(__CPROVER_w_ok(b, (n + n) * sizeof(word)))
__CPROVER_requires(__CPROVER_w_ok(stack, zzSqr_deep(n)))
__CPROVER_assigns(__CPROVER_object_upto(b, (n + n) * sizeof(word)));
