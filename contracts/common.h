/* common.h -- vocabulary of the function contracts */
#ifndef CONTRACTS_COMMON_H
#define CONTRACTS_COMMON_H
#include "bee2/defs.h"
/* size cap: only excludes address-arithmetic overflow (stated in evidence.assumptions) */
#define NMAX ((size_t)1 << 20)
#define FRESH_W(p, n) __CPROVER_is_fresh(p, (n) * sizeof(word))
#define FRESH_O(p, n) __CPROVER_is_fresh(p, (n))
#define WHOLE(p) __CPROVER_object_whole(p)
#define RET __CPROVER_return_value
#define OLD(e) __CPROVER_old(e)
#endif
