/* Contracts of src/math/zz/zz_add.c for arbitrary operand length n (unbounded: every loop
   is closed by a loop contract, see plan/C05.py).  What is stated: exact-size buffers,
   frame (only the output array is assigned), termination (decreases), carry/borrow in
   {0,1}, boolean results in {0,1}, no bee2 ASSERT fires.  Values are B(N), see
   harness/C05/zz_add.c.  Variant suffixes: _aa = c==a (in place). */
#include "contracts/common.h"
#include "bee2/math/zz.h"

#define BIN_OUT(name) \
word c_##name(word c[], const word a[], const word b[], size_t n) \
__CPROVER_requires(n <= NMAX && FRESH_W(a, n) && FRESH_W(b, n) && FRESH_W(c, n)) \
__CPROVER_assigns(WHOLE(c)) \
__CPROVER_ensures(RET <= 1); \
word c_##name##_ca(word c[], const word a[], const word b[], size_t n) \
__CPROVER_requires(n <= NMAX && FRESH_W(a, n) && FRESH_W(b, n) && c == a) \
__CPROVER_assigns(WHOLE(c)) \
__CPROVER_ensures(RET <= 1); \
word c_##name##_cab(word c[], const word a[], const word b[], size_t n) \
__CPROVER_requires(n <= NMAX && FRESH_W(a, n) && b == a && c == a) \
__CPROVER_assigns(WHOLE(c)) \
__CPROVER_ensures(RET <= 1);
BIN_OUT(zzAdd)
BIN_OUT(zzSub)

#define UN_INOUT(name) \
word c_##name(word b[], const word a[], size_t n) \
__CPROVER_requires(n <= NMAX && FRESH_W(a, n) && FRESH_W(b, n)) \
__CPROVER_assigns(WHOLE(b)) \
__CPROVER_ensures(RET <= 1); \
word c_##name##_ba(word b[], const word a[], size_t n) \
__CPROVER_requires(n <= NMAX && FRESH_W(a, n) && b == a) \
__CPROVER_assigns(WHOLE(b)) \
__CPROVER_ensures(RET <= 1);
UN_INOUT(zzAdd2)
UN_INOUT(zzSub2)

/* carry out of a + w is 0/1 when n > 0 and w itself when n == 0 */
#define W_OUT(name) \
word c_##name(word b[], const word a[], size_t n, word w) \
__CPROVER_requires(n <= NMAX && FRESH_W(a, n) && FRESH_W(b, n)) \
__CPROVER_assigns(WHOLE(b)) \
__CPROVER_ensures(n == 0 ? RET == w : RET <= 1); \
word c_##name##_ba(word b[], const word a[], size_t n, word w) \
__CPROVER_requires(n <= NMAX && FRESH_W(a, n) && b == a) \
__CPROVER_assigns(WHOLE(b)) \
__CPROVER_ensures(n == 0 ? RET == w : RET <= 1);
W_OUT(zzAddW)
W_OUT(zzSubW)

#define W_INOUT(name) \
word c_##name(word a[], size_t n, word w) \
__CPROVER_requires(n <= NMAX && FRESH_W(a, n)) \
__CPROVER_assigns(WHOLE(a)) \
__CPROVER_ensures(n == 0 ? RET == w : RET <= 1);
W_INOUT(zzAddW2)
W_INOUT(zzSubW2)

void c_zzNeg(word b[], const word a[], size_t n)
__CPROVER_requires(n <= NMAX && FRESH_W(a, n) && FRESH_W(b, n))
__CPROVER_assigns(WHOLE(b));
void c_zzNeg_ba(word b[], const word a[], size_t n)
__CPROVER_requires(n <= NMAX && FRESH_W(a, n) && b == a)
__CPROVER_assigns(WHOLE(b));

#define PRED3(name) \
bool_t c_##name(const word c[], const word a[], const word b[], size_t n) \
__CPROVER_requires(n <= NMAX && FRESH_W(a, n) && FRESH_W(b, n) && FRESH_W(c, n)) \
__CPROVER_assigns() \
__CPROVER_ensures(RET == 0 || RET == 1);
PRED3(zzIsSumEq)
PRED3(zzIsSumEq_fast)

#define PREDW(name) \
bool_t c_##name(const word b[], const word a[], size_t n, word w) \
__CPROVER_requires(n <= NMAX && FRESH_W(a, n) && FRESH_W(b, n)) \
__CPROVER_assigns() \
__CPROVER_ensures(RET == 0 || RET == 1);
PREDW(zzIsSumWEq)
PREDW(zzIsSumWEq_fast)
