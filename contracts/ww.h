/* Contracts of src/math/ww.c for arbitrary n (unbounded; loops closed by loop contracts in
   plan/C07.py): exact-size arrays, frame, termination, result ranges.  Values are B(N) in
   harness/C05/ww.c. */
#include "contracts/common.h"
#include "bee2/math/ww.h"

void c_wwCopy(word b[], const word a[], size_t n)
__CPROVER_requires(n <= NMAX && FRESH_W(a, n) && FRESH_W(b, n)) __CPROVER_assigns(WHOLE(b));
void c_wwCopy_ba(word b[], const word a[], size_t n)
__CPROVER_requires(n <= NMAX && FRESH_W(a, n) && b == a) __CPROVER_assigns(WHOLE(b));
void c_wwSwap(word a[], word b[], size_t n)
__CPROVER_requires(n <= NMAX && FRESH_W(a, n) && FRESH_W(b, n)) __CPROVER_assigns(WHOLE(a), WHOLE(b));

#define CMP2(name, lo, hi) \
int c_##name(const word a[], const word b[], size_t n) \
__CPROVER_requires(n <= NMAX && FRESH_W(a, n) && FRESH_W(b, n)) __CPROVER_assigns() \
__CPROVER_ensures(RET >= lo && RET <= hi);
CMP2(wwEq, 0, 1) CMP2(wwEq_fast, 0, 1) CMP2(wwCmp, -1, 1) CMP2(wwCmp_fast, -1, 1)

int c_wwCmp2(const word a[], size_t n, const word b[], size_t m)
__CPROVER_requires(n <= NMAX && m <= NMAX && FRESH_W(a, n) && FRESH_W(b, m)) __CPROVER_assigns()
__CPROVER_ensures(RET >= -1 && RET <= 1);
int c_wwCmp2_fast(const word a[], size_t n, const word b[], size_t m)
__CPROVER_requires(n <= NMAX && m <= NMAX && FRESH_W(a, n) && FRESH_W(b, m)) __CPROVER_assigns()
__CPROVER_ensures(RET >= -1 && RET <= 1);

#define CMPW(name, lo, hi) \
int c_##name(const word a[], size_t n, word w) \
__CPROVER_requires(n <= NMAX && FRESH_W(a, n)) __CPROVER_assigns() \
__CPROVER_ensures(RET >= lo && RET <= hi);
CMPW(wwCmpW, -1, 1) CMPW(wwCmpW_fast, -1, 1)

void c_wwXor(word c[], const word a[], const word b[], size_t n)
__CPROVER_requires(n <= NMAX && FRESH_W(a, n) && FRESH_W(b, n) && FRESH_W(c, n)) __CPROVER_assigns(WHOLE(c));
void c_wwXor_ca(word c[], const word a[], const word b[], size_t n)
__CPROVER_requires(n <= NMAX && FRESH_W(a, n) && FRESH_W(b, n) && c == a) __CPROVER_assigns(WHOLE(c));
void c_wwXor2(word b[], const word a[], size_t n)
__CPROVER_requires(n <= NMAX && FRESH_W(a, n) && FRESH_W(b, n)) __CPROVER_assigns(WHOLE(b));
void c_wwSetZero(word a[], size_t n)
__CPROVER_requires(n <= NMAX && FRESH_W(a, n)) __CPROVER_assigns(WHOLE(a));
/* n == 0 requires w == 0 (ww.h) */
void c_wwSetW(word a[], size_t n, word w)
__CPROVER_requires(n <= NMAX && FRESH_W(a, n) && (n > 0 || w == 0)) __CPROVER_assigns(WHOLE(a));
void c_wwRepW(word a[], size_t n, word w)
__CPROVER_requires(n <= NMAX && FRESH_W(a, n) && (n > 0 || w == 0)) __CPROVER_assigns(WHOLE(a));

#define PRED1(name) \
bool_t c_##name(const word a[], size_t n) \
__CPROVER_requires(n <= NMAX && FRESH_W(a, n)) __CPROVER_assigns() __CPROVER_ensures(RET == 0 || RET == 1);
PRED1(wwIsZero) PRED1(wwIsZero_fast)
#define PRED1W(name) \
bool_t c_##name(const word a[], size_t n, word w) \
__CPROVER_requires(n <= NMAX && FRESH_W(a, n)) __CPROVER_assigns() __CPROVER_ensures(RET == 0 || RET == 1);
PRED1W(wwIsW) PRED1W(wwIsW_fast) PRED1W(wwIsRepW) PRED1W(wwIsRepW_fast)

size_t c_wwWordSize(const word a[], size_t n)
__CPROVER_requires(n <= NMAX && FRESH_W(a, n)) __CPROVER_assigns() __CPROVER_ensures(RET <= n);
size_t c_wwOctetSize(const word a[], size_t n)
__CPROVER_requires(n <= NMAX && FRESH_W(a, n)) __CPROVER_assigns() __CPROVER_ensures(RET <= n * O_PER_W);
size_t c_wwLoZeroBits(const word a[], size_t n)
__CPROVER_requires(n <= NMAX && FRESH_W(a, n)) __CPROVER_assigns() __CPROVER_ensures(RET <= n * B_PER_W);
size_t c_wwHiZeroBits(const word a[], size_t n)
__CPROVER_requires(n <= NMAX && FRESH_W(a, n)) __CPROVER_assigns() __CPROVER_ensures(RET <= n * B_PER_W);
size_t c_wwBitSize(const word a[], size_t n)
__CPROVER_requires(n <= NMAX && FRESH_W(a, n)) __CPROVER_assigns() __CPROVER_ensures(RET <= n * B_PER_W);

/* shifts: any shift distance */
void c_wwShLo(word a[], size_t n, size_t shift)
__CPROVER_requires(n <= NMAX && FRESH_W(a, n)) __CPROVER_assigns(WHOLE(a));
void c_wwShHi(word a[], size_t n, size_t shift)
__CPROVER_requires(n <= NMAX && FRESH_W(a, n)) __CPROVER_assigns(WHOLE(a));
word c_wwShLoCarry(word a[], size_t n, size_t shift, word carry)
__CPROVER_requires(n <= NMAX && FRESH_W(a, n)) __CPROVER_assigns(WHOLE(a));
word c_wwShHiCarry(word a[], size_t n, size_t shift, word carry)
__CPROVER_requires(n <= NMAX && FRESH_W(a, n)) __CPROVER_assigns(WHOLE(a));
void c_wwTrimLo(word a[], size_t n, size_t pos)
__CPROVER_requires(n <= NMAX && FRESH_W(a, n)) __CPROVER_assigns(WHOLE(a));
void c_wwTrimHi(word a[], size_t n, size_t pos)
__CPROVER_requires(n <= NMAX && FRESH_W(a, n)) __CPROVER_assigns(WHOLE(a));

/* single-bit access: a holds W_OF_B(pos + 1) words */
bool_t c_wwTestBit(const word a[], size_t pos)
__CPROVER_requires(pos < NMAX * B_PER_W && FRESH_W(a, pos / B_PER_W + 1)) __CPROVER_assigns()
__CPROVER_ensures(RET == 0 || RET == 1);
void c_wwSetBit(word a[], size_t pos, bool_t val)
__CPROVER_requires(pos < NMAX * B_PER_W && FRESH_W(a, pos / B_PER_W + 1) && (val == 0 || val == 1)) __CPROVER_assigns(WHOLE(a));
void c_wwFlipBit(word a[], size_t pos)
__CPROVER_requires(pos < NMAX * B_PER_W && FRESH_W(a, pos / B_PER_W + 1)) __CPROVER_assigns(WHOLE(a));
/* bit fields: a holds W_OF_B(pos + width) words, width <= B_PER_W; width >= 1 for reading */
word c_wwGetBits(const word a[], size_t pos, size_t width)
__CPROVER_requires(pos < NMAX * B_PER_W && width >= 1 && width <= B_PER_W && FRESH_W(a, (pos + width + B_PER_W - 1) / B_PER_W))
__CPROVER_assigns() __CPROVER_ensures(width == B_PER_W || RET < ((word)1 << width));
void c_wwSetBits(word a[], size_t pos, size_t width, word val)
__CPROVER_requires(pos < NMAX * B_PER_W && width >= 1 && width <= B_PER_W && FRESH_W(a, (pos + width + B_PER_W - 1) / B_PER_W))
__CPROVER_assigns(WHOLE(a));
