/*
 * belt_uf.c -- ASSUMED CONTRACT of the belt block function for the mode-level groups.
 * Linked in the CBMC build only (the native build runs the real belt_block.c).
 *
 * beltBlockEncr/Decr (octet, u32[4] and four-word interfaces) are represented by a pair of
 * uninterpreted functions E, D : bv128 x bv256 -> bv128 with D(E(x,k),k) == x and
 * E(D(y,k),k) == y instantiated at every point of use, and the frame "only the block is
 * written".  The axiom is discharged on the real belt_block.c by group C01/block.inverse
 * (z3); "E equals STB 34.101.31 section 6.1" by C01/block.spec.
 */
#include "bee2/defs.h"
typedef unsigned __CPROVER_bitvector[128] bv128;
typedef unsigned __CPROVER_bitvector[256] bv256;
bv128 __CPROVER_uninterpreted_beltE(bv128, bv256);
bv128 __CPROVER_uninterpreted_beltD(bv128, bv256);

static bv256 ld_key(const u32 key[8])
{
	bv256 k = 0;
	int i;
	for (i = 7; i >= 0; --i) k = (k << 32) | key[i];
	return k;
}
static bv128 uf_e(bv128 x, bv256 k)
{
	bv128 y = __CPROVER_uninterpreted_beltE(x, k);
	__CPROVER_assume(__CPROVER_uninterpreted_beltD(y, k) == x);
	return y;
}
static bv128 uf_d(bv128 y, bv256 k)
{
	bv128 x = __CPROVER_uninterpreted_beltD(y, k);
	__CPROVER_assume(__CPROVER_uninterpreted_beltE(x, k) == y);
	return x;
}
#define LD4(a, b, c, d) ((((((bv128)(d) << 32) | (c)) << 32 | (b)) << 32) | (a))

void beltBlockEncr2(u32 block[4], const u32 key[8])
{
	bv128 y = uf_e(LD4(block[0], block[1], block[2], block[3]), ld_key(key));
	block[0] = (u32)y, block[1] = (u32)(y >> 32), block[2] = (u32)(y >> 64), block[3] = (u32)(y >> 96);
}
void beltBlockDecr2(u32 block[4], const u32 key[8])
{
	bv128 y = uf_d(LD4(block[0], block[1], block[2], block[3]), ld_key(key));
	block[0] = (u32)y, block[1] = (u32)(y >> 32), block[2] = (u32)(y >> 64), block[3] = (u32)(y >> 96);
}
void beltBlockEncr3(u32* a, u32* b, u32* c, u32* d, const u32 key[8])
{
	bv128 y = uf_e(LD4(*a, *b, *c, *d), ld_key(key));
	*a = (u32)y, *b = (u32)(y >> 32), *c = (u32)(y >> 64), *d = (u32)(y >> 96);
}
void beltBlockDecr3(u32* a, u32* b, u32* c, u32* d, const u32 key[8])
{
	bv128 y = uf_d(LD4(*a, *b, *c, *d), ld_key(key));
	*a = (u32)y, *b = (u32)(y >> 32), *c = (u32)(y >> 64), *d = (u32)(y >> 96);
}
static bv128 ld_oct(const octet b[16])
{
	bv128 x = 0;
	int i;
	for (i = 15; i >= 0; --i) x = (x << 8) | b[i];
	return x;
}
static void st_oct(octet b[16], bv128 y)
{
	int i;
	for (i = 0; i < 16; ++i) b[i] = (octet)(y >> (8 * i));
}
void beltBlockEncr(octet block[16], const u32 key[8])
{
	st_oct(block, uf_e(ld_oct(block), ld_key(key)));
}
void beltBlockDecr(octet block[16], const u32 key[8])
{
	st_oct(block, uf_d(ld_oct(block), ld_key(key)));
}

/* beltPolyMul (GF(2^128) multiplication, belt_lcl.c): in the chunking / round-trip groups both
   sides of every equality call it on equal arguments, so it is abstracted to a deterministic
   uninterpreted function of its two operands that writes only c.  (Its value is the subject
   of group C01/polymul.) */
bv128 __CPROVER_uninterpreted_beltPolyMul(bv128, bv128);
void beltPolyMul(word c[], const word a[], const word b[], void* stack)
{
	bv128 x = 0, y = 0, z;
	int i;
	(void)stack;
	for (i = (int)(128 / B_PER_W) - 1; i >= 0; --i) x = (x << B_PER_W) | a[i], y = (y << B_PER_W) | b[i];
	z = __CPROVER_uninterpreted_beltPolyMul(x, y);
	for (i = 0; i < (int)(128 / B_PER_W); ++i) c[i] = (word)(z >> (B_PER_W * i));
}
