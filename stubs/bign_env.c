/* contract stubs of the layers below the high-level bign functions (CBMC only); see harness/C02/env.h.
   Every stub = requires (asserted) + ghost record + havoc of the outputs under the callee's ensures. */
#include <stdarg.h>
#include "harness/C02/env.h"
#include "bee2/core/blob.h"
#include "bee2/core/err.h"
#include "bee2/core/oid.h"
#include "bee2/core/util.h"
#include "bee2/crypto/belt.h"
#include "bee2/math/ecp.h"
#include "bee2/math/ww.h"
#include "bee2/math/zz.h"
#include "bee2/math/qr.h"
#include "crypto/bign/bign_lcl.h"

env_t E;
int nondet_int(void); size_t nondet_size(void); word nondet_word(void); octet nondet_octet(void);
#define REQ(c, msg) __CPROVER_assert(c, "requires " msg)

static void hv_words(word* p, size_t n) { size_t i; for (i = 0; i < n; ++i) p[i] = nondet_word(); }
static void hv_octets_(octet* p, size_t n) { size_t i; for (i = 0; i < n; ++i) p[i] = nondet_octet(); }
static int lt_(const word* a, const word* b, size_t n) { while (n--) { if (a[n] != b[n]) return a[n] < b[n]; } return 0; }
static int zero_(const word* a, size_t n) { while (n--) if (a[n]) return 0; return 1; }

/* ---- the state: one typed static object (curve, field, their data, then the caller's local variables and stack).
   Its declared size E.blob_size is what the function asked blobCreate for; every callee stack must fit below it
   (FITS).  A heap object of exactly that size was tried first: untyped dynamic memory holding the object
   pointers makes the queries run out of memory. */
#define ENV_LOCALS (24 * NW)   /* capacity for the local variables; the stacks of the callees are never touched by the stubs */
static struct env_state { ec_o ec; qr_o f; word mod[NW]; word order[NW + 1]; word base[2 * NW]; word A[NW]; word B[NW]; word locals[ENV_LOCALS]; } S;
#define ENV_KEEP (__builtin_offsetof(struct env_state, locals))
#define FITS(p, need) (__CPROVER_same_object(p, &S) && __CPROVER_POINTER_OFFSET(p) >= ENV_KEEP && \
	(size_t)__CPROVER_POINTER_OFFSET(p) + (size_t)(need) <= E.blob_size)
blob_t blobCreate(size_t size)
{
	REQ(E.created == 0, "one state per call");
	if (nondet_int()) return 0;
	E.blob = &S; E.blob_size = size; E.created = 1;
	return &S;
}
void blobClose(blob_t b)
{
	if (b == 0) return;
	if (b != E.blob || E.closed) E.close_bad = 1;
	REQ(b == E.blob && !E.closed, "blobClose: the state created by this call, closed once");
	E.closed = 1;
}

/* octet-wise havoc; word-wise when the target is word-aligned inside the state (octet-granular updates of the state
   object make the queries run out of memory) */
static void hv_octets(octet* p, size_t n)
{
	if (__CPROVER_same_object(p, &S) && n % O_PER_W == 0 && __CPROVER_POINTER_OFFSET(p) % O_PER_W == 0)
		hv_words((word*)p, n / O_PER_W);
	else
		hv_octets_(p, n);
}

/* ---- bignStart: order = params->q, modulus = params->p, base point arbitrary */
size_t bignStart_keep(size_t l, bign_deep_i deep)
{
	REQ(l == L, "bignStart_keep: level of the parameters");
	return ENV_KEEP + deep(NW, ENV_F_DEEP, ENV_EC_D, ENV_EC_DEEP);
}
static bool_t env_from(word b[], const octet a[], const struct qr_o* r, void* stack);
static void env_to(octet b[], const word a[], const struct qr_o* r, void* stack);
static void env_sqr(word b[], const word a[], const struct qr_o* r, void* stack);
static void env_mul(word c[], const word a[], const word b[], const struct qr_o* r, void* stack);
err_t bignStart(void* state, const bign_params* params)
{
	ec_o* ec = &S.ec; qr_o* f = &S.f;
	REQ(state == E.blob, "bignStart: on the state just created");
	REQ(params->l == L, "bignStart: level");
	/* the descriptions are laid out on both outcomes: a failure decided before the stores would turn every field
	   into a two-valued expression after the call and every later offset symbolic */
	ec->hdr.keep = ENV_KEEP; ec->hdr.p_count = 6; ec->hdr.o_count = 1;
	f->hdr.keep = sizeof(qr_o); f->hdr.p_count = 3; f->hdr.o_count = 0;
	f->n = NW; f->no = NO; f->mod = S.mod; f->unity = 0; f->params = 0; f->deep = ENV_F_DEEP;
	f->from = env_from; f->to = env_to;
	f->add = 0; f->sub = 0; f->neg = 0; f->mul = env_mul; f->sqr = env_sqr; f->inv = 0; f->div = 0;
	wwFrom(f->mod, params->p, NO);
	ec->f = f; ec->A = S.A; ec->B = S.B; ec->params = 0; ec->d = ENV_EC_D; ec->cofactor = 1; ec->deep = ENV_EC_DEEP;
	ec->order = S.order; ec->base = S.base;
	ec->froma = 0; ec->toa = 0; ec->neg = 0; ec->add = 0; ec->adda = 0; ec->sub = 0; ec->suba = 0; ec->dbl = 0; ec->dbla = 0; ec->tpl = 0;
	wwFrom(ec->order, params->q, NO); ec->order[NW] = 0;
	hv_words(ec->base, 2 * NW);
	hv_words(S.A, NW); hv_words(S.B, NW); __CPROVER_assume(lt_(S.A, S.mod, NW) && lt_(S.B, S.mod, NW));
	{ size_t j; E.A = S.A; E.B = S.B; for (j = 0; j < NW; ++j) E.A_val[j] = S.A[j], E.B_val[j] = S.B[j], E.p[j] = S.mod[j]; }
	E.ec = ec; E.f = f; E.base = ec->base; E.order = ec->order;
	{ size_t j; for (j = 0; j < NW; ++j) E.q[j] = ec->order[j]; for (j = 0; j < 2 * NW; ++j) E.base_val[j] = ec->base[j]; }
	E.start_ret = nondet_int() ? 1 : -1;
	return E.start_ret == 1 ? ERR_OK : ERR_BAD_PARAMS;
}

#if (L == 96)
size_t bign96Start_keep(bign_deep_i deep) { return ENV_KEEP + (deep ? deep(NW, ENV_F_DEEP, ENV_EC_D, ENV_EC_DEEP) : 0); }
err_t bign96Start(void* state, const bign_params* params)
{
	/* ensures of bign96Start: success only for a 192-bit odd group order (2^191 < q < 2^192) */
	err_t code = bignStart(state, params);
	if (code == ERR_OK && (!(S.order[NW - 1] >> (B_PER_W - 1)) || !(S.order[0] & 1))) { E.start_ret = -1; return ERR_BAD_PARAMS; }
	return code;
}
#endif

/* ---- field import / export */
static bool_t env_from(word b[], const octet a[], const struct qr_o* r, void* stack)
{
	int i = E.nfrom;
	REQ(i < ENV_MAX, "qrFrom: call count"); REQ(r == E.f, "qrFrom: the field of the curve");
	REQ(__CPROVER_r_ok(a, NO), "qrFrom: source of no octets");
	REQ(FITS(stack, ENV_F_DEEP), "qrFrom: stack of f->deep octets inside the state");
	E.from_src[i] = a; E.from_dst[i] = b; E.from_ret[i] = nondet_int() ? TRUE : FALSE;
	hv_words(b, NW);
	{ size_t j; for (j = 0; j < NW; ++j) E.from_val[i][j] = b[j]; }
	E.nfrom = i + 1;
	return E.from_ret[i];
}
static void env_to(octet b[], const word a[], const struct qr_o* r, void* stack)
{
	int i = E.nto; size_t j;
	REQ(i < ENV_MAX, "qrTo: call count"); REQ(r == E.f, "qrTo: the field of the curve");
	REQ(FITS(stack, ENV_F_DEEP), "qrTo: stack of f->deep octets inside the state");
	for (j = 0; j < NW; ++j) E.to_in[i][j] = a[j];
	E.to_dst[i] = b; E.to_src[i] = a;
	hv_octets(b, NO);
	for (j = 0; j < NO; ++j) E.to_val[i][j] = b[j];
	E.nto = i + 1;
}

/* ---- field squaring / product / power: results are field elements (< mod) */
static void env_sqr(word b[], const word a[], const struct qr_o* r, void* stack)
{
	int i = E.nsqr; size_t j;
	REQ(i < 2, "qrSqr: call count"); REQ(r == E.f, "qrSqr: the field of the curve"); REQ(FITS(stack, ENV_F_DEEP), "qrSqr: stack of f->deep octets inside the state");
	for (j = 0; j < NW; ++j) E.sqr_in[i][j] = a[j];
	hv_words(b, NW); __CPROVER_assume(lt_(b, S.mod, NW));
	for (j = 0; j < NW; ++j) E.sqr_out[i][j] = b[j];
	E.nsqr = i + 1;
}
static void env_mul(word c[], const word a[], const word b[], const struct qr_o* r, void* stack)
{
	size_t j;
	REQ(E.nfmul == 0, "qrMul: one call"); REQ(r == E.f, "qrMul: the field of the curve"); REQ(FITS(stack, ENV_F_DEEP), "qrMul: stack of f->deep octets inside the state");
	for (j = 0; j < NW; ++j) E.fmul_a[j] = a[j], E.fmul_b[j] = b[j];
	hv_words(c, NW); __CPROVER_assume(lt_(c, S.mod, NW));
	for (j = 0; j < NW; ++j) E.fmul_out[j] = c[j];
	E.nfmul = 1;
}
void qrPower(word c[], const word a[], const word b[], size_t m, const qr_o* r, void* stack)
{
	size_t j;
	REQ(E.npow == 0, "qrPower: one call"); REQ(r == E.f && m == NW, "qrPower: the field of the curve, exponent of n words");
	REQ(FITS(stack, qrPower_deep(NW, m, ENV_F_DEEP)), "qrPower: stack of qrPower_deep octets inside the state");
	for (j = 0; j < NW; ++j) E.pow_a[j] = a[j], E.pow_e[j] = b[j];
	E.pow_m = m;
	hv_words(c, NW); __CPROVER_assume(lt_(c, S.mod, NW));
	for (j = 0; j < NW; ++j) E.pow_out[j] = c[j];
	E.npow = 1;
}

/* ---- zzRandNZMod: ensures 0 < a < mod on success */
bool_t zzRandNZMod(word a[], const word mod[], size_t n, gen_i rng, void* rng_state)
{
	size_t j;
	REQ(E.nrand == 0, "zzRandNZMod: one draw"); REQ(n == NW, "zzRandNZMod: n");
	E.nrand = 1; E.rand_dst = a; E.rand_mod = mod; E.rand_n = n; E.rand_rng = rng; E.rand_state = rng_state;
	E.rand_ret = nondet_int() ? TRUE : FALSE;
	hv_words(a, n);
	if (E.rand_ret) __CPROVER_assume(!zero_(a, n) && lt_(a, mod, n));
	for (j = 0; j < NW; ++j) E.rand_val[j] = a[j];
	return E.rand_ret;
}

/* ---- curve */
bool_t ecMulA(word b[], const word a[], const ec_o* ec, const word d[], size_t m, void* stack)
{
	size_t j;
	REQ(E.nmul < 2, "ecMulA: at most two calls"); REQ(m <= NW, "ecMulA: scalar length");
	REQ(FITS(stack, ecMulA_deep(NW, ENV_EC_D, ENV_EC_DEEP, m)), "ecMulA: stack of ecMulA_deep octets inside the state");
	if (E.nmul == 0)
	{
		E.mul_b = b; E.mul_a = a; E.mul_ec = ec; E.mul_m = m;
		for (j = 0; j < NW; ++j) E.mul_d[j] = j < m ? d[j] : 0;
		for (j = 0; j < 2 * NW; ++j) E.mul_aval[j] = a[j];
		E.mul_ret = nondet_int() ? TRUE : FALSE;
		hv_words(b, 2 * NW);
		for (j = 0; j < 2 * NW; ++j) E.mul_out[j] = b[j];
		E.nmul = 1;
		return E.mul_ret;
	}
	E.mul2_b = b; E.mul2_a = a; E.mul2_ec = ec; E.mul2_m = m;
	for (j = 0; j < NW; ++j) E.mul2_d[j] = j < m ? d[j] : 0;
	for (j = 0; j < 2 * NW; ++j) E.mul2_aval[j] = a[j];
	E.mul2_ret = nondet_int() ? TRUE : FALSE;
	hv_words(b, 2 * NW);
	for (j = 0; j < 2 * NW; ++j) E.mul2_out[j] = b[j];
	E.nmul = 2;
	return E.mul2_ret;
}
bool_t ecAddMulA(word b[], const ec_o* ec, void* stack, size_t k, ...)
{
	va_list ap; size_t i, j;
	REQ(E.naddmul == 0, "ecAddMulA: one call"); REQ(k == 2 || k == 3, "ecAddMulA: two or three terms");
	E.naddmul = 1; E.am_b = b; E.am_ec = ec; E.am_k = k;
	E.am_m[2] = 0;
	va_start(ap, k);
	for (i = 0; i < 3 && i < k; ++i)
	{
		const word* pt = va_arg(ap, const word*); const word* d = va_arg(ap, const word*); size_t m = va_arg(ap, size_t);
		REQ(m <= NW + 1, "ecAddMulA: scalar length");
		E.am_pt[i] = pt; E.am_m[i] = m;
		for (j = 0; j < 2 * NW; ++j) E.am_ptval[i][j] = pt[j];
		for (j = 0; j < NW + 1; ++j) E.am_d[i][j] = j < m ? d[j] : 0;
	}
	va_end(ap);
	if (k == 2)
		REQ(FITS(stack, ecAddMulA_deep(NW, ENV_EC_D, ENV_EC_DEEP, 2, E.am_m[0], E.am_m[1])), "ecAddMulA: stack of ecAddMulA_deep octets inside the state");
	else
		REQ(FITS(stack, ecAddMulA_deep(NW, ENV_EC_D, ENV_EC_DEEP, 3, E.am_m[0], E.am_m[1], E.am_m[2])), "ecAddMulA: stack of ecAddMulA_deep octets inside the state (three terms)");
	E.am_ret = nondet_int() ? TRUE : FALSE;
	hv_words(b, 2 * NW);
	for (j = 0; j < 2 * NW; ++j) E.am_out[j] = b[j];
	return E.am_ret;
}
bool_t ecpIsOnA(const word a[], const ec_o* ec, void* stack)
{
	size_t j;
	REQ(E.nison == 0, "ecpIsOnA: one call"); E.ison_nfrom = E.nfrom; REQ(ec == E.ec, "ecpIsOnA: the curve of the parameters");
	REQ(FITS(stack, ecpIsOnA_deep(NW, ENV_F_DEEP)), "ecpIsOnA: stack of ecpIsOnA_deep octets inside the state");
	E.nison = 1; E.ison_a = a; for (j = 0; j < 2 * NW; ++j) E.ison_val[j] = a[j];
	E.ison_ret = nondet_int() ? TRUE : FALSE;
	return E.ison_ret;
}

/* ---- belt-hash: transcript.  The state is opaque to the callers; the model keeps (instance id, number of steps) in its
   first two words, so that a copy of a state (deterministic signing forks the hash state) carries its history */
static void h_rec(int kind, const void* p, size_t len, void* state)
{
	int i = E.nh; size_t j; word* st = (word*)state;
	REQ(i < ENV_MAX, "belt-hash: call count");
	E.h_kind[i] = kind; E.h_ptr[i] = p; E.h_len[i] = len; E.h_state[i] = state;
	if (kind == H_START) st[0] = (word)++E.hid, st[1] = 0;
	E.h_id[i] = st[0]; E.h_cnt[i] = st[1]; st[1] = st[1] + 1;
	for (j = 0; j < SNAP; ++j) E.h_val[i][j] = (p != 0 && kind == H_STEPH && j < len) ? ((const octet*)p)[j] : 0;
	E.nh = i + 1;
}
/* the size of a hash state is the callee's business: two words in this model (a 200-octet copy of opaque bytes inside the
   state object makes the deterministic-signing queries intractable) */
size_t beltHash_keep() { return 2 * sizeof(word); }
void beltHashStart(void* state)
{
	REQ(FITS(state, beltHash_keep()), "beltHashStart: state of beltHash_keep octets inside the state of the caller");
	h_rec(H_START, 0, 0, state);
}
void beltHashStepH(const void* buf, size_t count, void* state) { REQ(count <= SNAP, "beltHashStepH: length"); REQ(__CPROVER_r_ok(buf, count), "beltHashStepH: buffer"); REQ(FITS(state, beltHash_keep()), "beltHashStepH: state"); h_rec(H_STEPH, buf, count, state); }
void beltHashStepG(octet hash[32], void* state) { size_t j; REQ(FITS(state, beltHash_keep()), "beltHashStepG: state"); h_rec(H_G, hash, 32, state); hv_octets(hash, 32); for (j = 0; j < 32; ++j) E.h_out[j] = hash[j]; }
void beltHashStepG2(octet hash[], size_t hash_len, void* state) { size_t j; REQ(hash_len <= 32, "beltHashStepG2: length"); REQ(FITS(state, beltHash_keep()), "beltHashStepG2: state"); h_rec(H_G2, hash, hash_len, state); hv_octets(hash, hash_len); for (j = 0; j < 32; ++j) E.h_out[j] = j < hash_len ? hash[j] : 0; if (E.nh == 5) for (j = 0; j < 32; ++j) E.h_out4[j] = E.h_out[j]; }
bool_t beltHashStepV(const octet hash[32], void* state) { h_rec(H_V, hash, 32, state); E.h_ret = nondet_int() ? TRUE : FALSE; return E.h_ret; }
bool_t beltHashStepV2(const octet hash[], size_t hash_len, void* state) { REQ(hash_len <= 32, "beltHashStepV2: length"); REQ(__CPROVER_r_ok(hash, hash_len), "beltHashStepV2: buffer"); REQ(FITS(state, beltHash_keep()), "beltHashStepV2: state"); h_rec(H_V2, hash, hash_len, state); E.h_ret = nondet_int() ? TRUE : FALSE; return E.h_ret; }

/* ---- belt-wbl (nonce derivation of deterministic signing): at most three encryptions, the third output is admissible */
void beltWBLStart(void* state, const octet key[], size_t len)
{
	size_t j;
	REQ(FITS(state, beltWBL_keep()), "beltWBLStart: state of beltWBL_keep octets inside the state of the caller");
	REQ(len == 32 && __CPROVER_r_ok(key, 32), "beltWBLStart: 32-octet key");
	E.wbl_key = key; E.wbl_len = len; for (j = 0; j < 32; ++j) E.wbl_keyval[j] = key[j];
}
void beltWBLStepE(void* buf, size_t count, void* state)
{
	int i = E.nwbl; size_t j; octet* b = (octet*)buf;
	REQ(i < 3, "beltWBLStepE: call count (model bound)"); REQ(count >= 32 && count <= 64, "beltWBLStepE: 32..64 octets in this model");
	REQ(__CPROVER_w_ok(buf, count), "beltWBLStepE: buffer");
	E.wbl_count[i] = count; E.wbl_ptr[i] = buf;
	for (j = 0; j < 64; ++j) E.wbl_in[i][j] = j < count ? b[j] : 0;
	hv_octets(b, count);
	if (i == 2 && count == NO)
	{
		word w[NW]; size_t k; for (k = 0; k < NW; ++k) w[k] = ((word*)buf)[k];
		__CPROVER_assume(!zero_(w, NW) && lt_(w, E.q, NW));
	}
	for (j = 0; j < 64; ++j) E.wbl_out[i][j] = j < count ? b[j] : 0;
	E.nwbl = i + 1;
}

void beltWBLStepD2(void* buf1, void* buf2, size_t count, void* state)
{
	size_t j; octet* b1 = (octet*)buf1; octet* b2 = (octet*)buf2;
	REQ(E.nd2 == 0, "beltWBLStepD2: one call"); REQ(count >= 32 && count <= 64 + 16, "beltWBLStepD2: 32..80 octets in this model");
	REQ(__CPROVER_w_ok(buf1, count - 16) && __CPROVER_w_ok(buf2, 16), "beltWBLStepD2: buffers of count - 16 and 16 octets");
	E.nd2 = 1; E.d2_buf1 = buf1; E.d2_buf2 = buf2; E.d2_count = count;
	for (j = 0; j < 64; ++j) E.d2_in1[j] = j < count - 16 ? b1[j] : 0;
	for (j = 0; j < 16; ++j) E.d2_in2[j] = b2[j];
	hv_octets(b1, count - 16); hv_octets(b2, 16);
	for (j = 0; j < 64; ++j) E.d2_out1[j] = j < count - 16 ? b1[j] : 0;
	for (j = 0; j < 16; ++j) E.d2_out2[j] = b2[j];
}

/* ---- zzMul / zzMod: memory side + range of the remainder */
void zzMul(word c[], const word a[], size_t n, const word b[], size_t m, void* stack)
{
	size_t j;
	REQ(E.nzmul == 0, "zzMul: one call"); REQ(n <= NW && m <= NW, "zzMul: lengths");
	REQ(FITS(stack, zzMul_deep(n, m)), "zzMul: stack of zzMul_deep octets inside the state");
	E.nzmul = 1; E.zmul_n = n; E.zmul_m = m;
	for (j = 0; j < NW; ++j) E.zmul_a[j] = j < n ? a[j] : 0, E.zmul_b[j] = j < m ? b[j] : 0;
	hv_words(c, n + m);
	for (j = 0; j < 2 * NW; ++j) E.zmul_out[j] = j < n + m ? c[j] : 0;
}
void zzMod(word r[], const word a[], size_t n, const word b[], size_t m, void* stack)
{
	size_t j;
	REQ(E.nzmod == 0, "zzMod: one call"); REQ(n <= 2 * NW + 1 && m == NW, "zzMod: lengths");
	REQ(b[m - 1] != 0, "zzMod: normalised divisor");
	REQ(FITS(stack, zzMod_deep(n, m)), "zzMod: stack of zzMod_deep octets inside the state");
	E.nzmod = 1; E.zmod_n = n; E.zmod_mod = b; E.zmod_m = m;
	for (j = 0; j < 2 * NW + 1; ++j) E.zmod_a[j] = j < n ? a[j] : 0;
	hv_words(r, m);
	__CPROVER_assume(lt_(r, b, m));
	for (j = 0; j < NW; ++j) E.zmod_out[j] = r[j];
}

/* ---- zzAddMod / zzSubMod: requires a, b < mod; ensures c < mod (their values are decided under C05) */
static void addsub(int kind, word c[], const word a[], const word b[], const word mod[], size_t n)
{
	int i = E.nam; size_t j;
	REQ(i < 4, "zzAddMod/zzSubMod: call count"); REQ(n == NW, "zzAddMod/zzSubMod: n");
	REQ(lt_(a, mod, n) && lt_(b, mod, n), "zzAddMod/zzSubMod: a, b < mod");
	E.am_kind[i] = kind; E.amod_mod[i] = mod;
	for (j = 0; j < NW; ++j) E.amod_a[i][j] = a[j], E.amod_b[i][j] = b[j];
	hv_words(c, n);
	__CPROVER_assume(lt_(c, mod, n));
	for (j = 0; j < NW; ++j) E.amod_out[i][j] = c[j];
	E.nam = i + 1;
}
void zzAddMod(word c[], const word a[], const word b[], const word mod[], size_t n) { addsub(1, c, a, b, mod, n); }
void zzSubMod(word c[], const word a[], const word b[], const word mod[], size_t n) { addsub(-1, c, a, b, mod, n); }
void zzNegMod(word b[], const word a[], const word mod[], size_t n)
{
	size_t j;
	REQ(E.nneg == 0, "zzNegMod: one call"); REQ(n == NW, "zzNegMod: n"); REQ(lt_(a, mod, n), "zzNegMod: a < mod");
	E.nneg = 1; E.neg_mod = mod; for (j = 0; j < NW; ++j) E.neg_in[j] = a[j];
	hv_words(b, n); __CPROVER_assume(lt_(b, mod, n));
	for (j = 0; j < NW; ++j) E.neg_out[j] = b[j];
}

/* ---- DER of the hash algorithm identifier */
size_t oidFromDER(char* oid, const octet buf[], size_t count)
{
	REQ(oid == 0, "oidFromDER: length query only");
	E.noid++; E.oid_buf = buf; E.oid_count = count; E.oid_ret = nondet_size();
	return E.oid_ret;
}

void rng_stub(void* buf, size_t count, void* state) { hv_octets((octet*)buf, count); }
