/* memchr model for the memwipe groups (CBMC 6.11 ships no model; an undefined memchr returns a
   nondeterministic pointer, which feeds memWipe's static counter). */
#include <stddef.h>
void* memchr(const void* s, int c, size_t n)
{
	const unsigned char* p = (const unsigned char*)s;
	size_t i;
	for (i = 0; i < n; ++i)
		if (p[i] == (unsigned char)c)
			return (void*)(p + i);
	return 0;
}
