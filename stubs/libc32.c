/* libc32.c -- models of the four libc memory functions for the -m32 groups only: CBMC's
   built-in library cannot be instantiated for the 32-bit target in this sandbox (no 32-bit
   libc headers), so "no body for callee memcpy" would otherwise fail every caller.  Plain
   byte loops; trusted text, listed in the evidence of C19. */
typedef unsigned int size_t32;
void* memcpy(void* d, const void* s, size_t32 n)
{
	unsigned char* dd = (unsigned char*)d; const unsigned char* ss = (const unsigned char*)s; size_t32 i;
	for (i = 0; i < n; ++i) dd[i] = ss[i];
	return d;
}
void* memmove(void* d, const void* s, size_t32 n)
{
	unsigned char* dd = (unsigned char*)d; const unsigned char* ss = (const unsigned char*)s; size_t32 i;
	if (dd == ss) return d;
	if (__CPROVER_same_object(d, s) && __CPROVER_POINTER_OFFSET(d) > __CPROVER_POINTER_OFFSET(s))
		for (i = n; i-- > 0;) dd[i] = ss[i];
	else
		for (i = 0; i < n; ++i) dd[i] = ss[i];
	return d;
}
void* memset(void* d, int c, size_t32 n)
{
	unsigned char* dd = (unsigned char*)d; size_t32 i;
	for (i = 0; i < n; ++i) dd[i] = (unsigned char)c;
	return d;
}
int memcmp(const void* a, const void* b, size_t32 n)
{
	const unsigned char* x = (const unsigned char*)a; const unsigned char* y = (const unsigned char*)b; size_t32 i;
	for (i = 0; i < n; ++i) if (x[i] != y[i]) return x[i] < y[i] ? -1 : 1;
	return 0;
}
