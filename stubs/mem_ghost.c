/*
 * mem_ghost.c -- ghost-instrumented allocator contracts for the C09 / C15 groups.
 * The bodies of memAlloc, memFree and memWipe are removed from mem.c (CBMC build) or
 * overridden at link time (native build) by the versions below:
 *   memAlloc(n) : fails (returns 0) at the allocation whose ordinal the harness selected --
 *                 nondeterministically under CBMC, so "failure at the 1st, 2nd, ... n-th
 *                 allocation" is covered for all n at once;
 *   memWipe(p,n): records the wiped region (and really wipes it natively);
 *   memFree(p)  : OBLIGATION (C15) -- the block being released was wiped over its whole size
 *                 by the most recent memWipe; keeps the live-allocation balance (C09).
 */
#include <stddef.h>
#include <stdlib.h>
#include <string.h>

unsigned g_live;            /* allocations not yet released */
unsigned g_allocs;          /* allocations attempted */
unsigned g_failed;          /* an allocation was made to fail */
unsigned g_fail_at;         /* ordinal (1-based) of the allocation that fails; 0 = none */
unsigned g_unwiped_free;    /* a block was released without having been wiped (native) */
static const void* g_wiped_ptr;
static size_t g_wiped_len;

#ifdef VERIF_CBMC
void* memAlloc(size_t count)
{
	void* p;
	++g_allocs;
	if (g_allocs == g_fail_at) { g_failed = 1; return 0; }
	p = malloc(count);
	__CPROVER_assume(p != 0);
	++g_live;
	return p;
}
void memWipe(void* buf, size_t count)
{
	g_wiped_ptr = buf, g_wiped_len = count;
}
void memFree(void* buf)
{
	if (buf == 0) return;
	__CPROVER_assert(g_wiped_ptr == buf && __CPROVER_POINTER_OFFSET(buf) == 0 && g_wiped_len == __CPROVER_OBJECT_SIZE(buf),
		"C15: heap block is wiped over its whole size before it is released");
	--g_live;
	free(buf);
}
#else
#define MAXA 64
static struct { void* p; size_t n; } g_tab[MAXA];
void* memAlloc(size_t count)
{
	void* p; int i;
	++g_allocs;
	if (g_allocs == g_fail_at) { g_failed = 1; return 0; }
	p = malloc(count);
	if (!p) return 0;
	for (i = 0; i < MAXA; ++i) if (!g_tab[i].p) { g_tab[i].p = p, g_tab[i].n = count; break; }
	++g_live;
	return p;
}
void memWipe(void* buf, size_t count)
{
	volatile unsigned char* q = (volatile unsigned char*)buf;
	size_t i;
	for (i = 0; i < count; ++i) q[i] = 0;
	g_wiped_ptr = buf, g_wiped_len = count;
}
void memFree(void* buf)
{
	int i;
	if (buf == 0) return;
	for (i = 0; i < MAXA; ++i)
		if (g_tab[i].p == buf)
		{
			if (!(g_wiped_ptr == buf && g_wiped_len == g_tab[i].n)) ++g_unwiped_free;
			g_tab[i].p = 0;
			break;
		}
	--g_live;
	free(buf);
}
#endif
